(** C05 — non-vacuity of the main theorems on a concrete game, and refutation of the three defects of the
    pinned snapshot ([push_move_legacy]): the off-by-one window of identicalPositionCount, the clock reset on
    castling, and the light-square mask.  All by computation. *)
From Coq Require Import NArith ZArith List Bool Lia.
From Morlock.Model Require Import Bits Attacks Move Position Abs Zobrist Board.
From Morlock.Spec Require Import Chess Game.
From Morlock.Lemmas Require Import PositionLemmas MoveRefines BoardHeap1 GameLemmas2 GameLemmas4 GameLemmas6 GameLemmas7.
Import ListNotations.
Open Scope N_scope.

Definition gz : ztable := mkZt (fun c p s => c * 1000 + p * 100 + s + 1) (fun c => c + 7) (fun s => 0) (fun t => t + 11).
Lemma gz_ok : zt_ok gz. Proof. intros sq _ _. reflexivity. Qed.

Definition getp (o : option position) : position := match o with Some p => p | None => empty_position 0 0 end.
Definition start_pos : position := getp (new_position initial_placements 15 0).

(** Nf3 Nf6 Ng1 Ng8 (g1 = 1, f3 = 18, g8 = 57, f6 = 42) *)
Definition Nf3 := mkMove Normal 1 18 Knight NoPiece NoPiece.
Definition Nf6 := mkMove Normal 57 42 Knight NoPiece NoPiece.
Definition Ng1 := mkMove Normal 18 1 Knight NoPiece NoPiece.
Definition Ng8 := mkMove Normal 42 57 Knight NoPiece NoPiece.
Definition shuffle : list move := [Nf3; Nf6; Ng1; Ng8].

Definition pushfn := ztable -> heap -> board -> move -> heap * board * bool.

(** push generator moves only; [None] as soon as a move is not pseudo-legal or is rejected *)
Fixpoint play_with (push : pushfn) (ms : list move) (h : heap) (b : board) : option (heap * board) :=
  match ms with
  | [] => Some (h, b)
  | m :: r =>
      if existsb (move_eqb m) (pseudo_legal_moves (b_position h b) (b_turn b))
      then let '(h', b', ok) := push gz h b m in if ok then play_with push r h' b' else None
      else None
  end.

Definition result_of (o : option (heap * board)) : option (N * reason) :=
  match o with Some (_, b) => Some (outcome (b_result b), rreason (b_result b)) | None => None end.

Definition start_board := new_board gz [] start_pos White 0 1.

(** ** the repaired model: the third occurrence of the start position is reported, and not earlier *)
Example threefold_reported :
  wf_b start_pos White = true /\
  result_of (play_with push_move (shuffle ++ shuffle) (fst start_board) (snd start_board)) = Some (Draw, Repetition3) /\
  result_of (play_with push_move (shuffle ++ [Nf3; Nf6; Ng1]) (fst start_board) (snd start_board)) = Some (Unknown, NoReason).
Proof. repeat split; vm_compute; reflexivity. Qed.

(** the same game as a [played_board]: the hypotheses of the main theorems are satisfiable, and the
    specification game says three-fold after the eighth half-move *)
Lemma play_with_played : forall ms ms0 h b h' b',
  played_board gz start_pos White 0 1 ms0 h b ->
  play_with push_move ms h b = Some (h', b') ->
  played_board gz start_pos White 0 1 (ms0 ++ ms) h' b'.
Proof.
  induction ms as [|m r IH]; intros ms0 h b h' b' Hpl H; cbn [play_with] in H.
  - inversion H; subst. now rewrite app_nil_r.
  - destruct (existsb (move_eqb m) (pseudo_legal_moves (b_position h b) (b_turn b))) eqn:E; [|discriminate].
    apply in_of_existsb in E.
    destruct (push_move gz h b m) as [[h1 b1] ok] eqn:Ep. destruct ok; [|discriminate].
    replace (ms0 ++ m :: r) with ((ms0 ++ [m]) ++ r) by (now rewrite <- app_assoc).
    eapply IH; [|exact H]. econstructor; eauto.
Qed.

Example threefold_game :
  exists h b, played_board gz start_pos White 0 1 (shuffle ++ shuffle) h b /\
    g_now (spec_game start_pos White 0 1 (shuffle ++ shuffle)) = [DrawRep3] /\
    b_result b = mkResult Draw Repetition3.
Proof.
  destruct (play_with push_move (shuffle ++ shuffle) (fst start_board) (snd start_board)) as [[h b]|] eqn:E;
    [|vm_compute in E; discriminate].
  exists h, b. split; [|split].
  - change (shuffle ++ shuffle) with ([] ++ (shuffle ++ shuffle)). eapply play_with_played; [|exact E].
    constructor. reflexivity.
  - vm_compute. reflexivity.
  - assert (R : result_of (Some (h, b)) = Some (Draw, Repetition3)) by (rewrite <- E; vm_compute; reflexivity).
    cbn in R. destruct (b_result b) as [o r]. cbn in R. now inversion R.
Qed.

(** ** 11(a) legacy: with the walk bounded by [i < limit] the node at distance = clock (here: the start position,
    8 plies back with clock 8) is never looked at: no draw is reported after the eighth half-move although the
    start position has occurred for the third time.  First for the snapshot as a whole, then with only the
    walk bound changed in the repaired model, which isolates the cause. *)
Definition push_only_ipc_legacy : pushfn :=
  push_move_with zmove update_noprogress (identical_position_count_with false) has_insufficient_material.

Example legacy_window_misses_threefold :
  result_of (play_with push_move_legacy (shuffle ++ shuffle) (fst start_board) (snd start_board)) = Some (Unknown, NoReason) /\
  result_of (play_with push_only_ipc_legacy (shuffle ++ shuffle) (fst start_board) (snd start_board)) = Some (Unknown, NoReason) /\
  g_now (spec_game start_pos White 0 1 (shuffle ++ shuffle)) = [DrawRep3].
Proof. repeat split; vm_compute; reflexivity. Qed.

(** ** 11(b) legacy: castling resets the half-move clock.  White: Ke1 Rh1, Black: Ke8, clock 10 at set-up. *)
Definition castle_pos : position :=
  getp (new_position [mkPlacement E1 White King; mkPlacement H1 White Rook; mkPlacement E8 Black King] 1 0).
Definition OO := mkMove KingSideCastle E1 G1 King NoPiece NoPiece.
Definition castle_board := new_board gz [] castle_pos White 10 1.
Definition push_only_clock_legacy : pushfn :=
  push_move_with zmove update_noprogress_legacy identical_position_count has_insufficient_material.
Definition clock_of (o : option (heap * board)) : option N :=
  match o with Some (h, b) => Some (b_noprogress h b) | None => None end.

Example legacy_castling_resets_clock :
  wf_b castle_pos White = true /\
  clock_of (play_with push_move [OO] (fst castle_board) (snd castle_board)) = Some 11 /\
  g_clock (spec_game castle_pos White 10 1 [OO]) = 11%Z /\
  clock_of (play_with push_move_legacy [OO] (fst castle_board) (snd castle_board)) = Some 0 /\
  clock_of (play_with push_only_clock_legacy [OO] (fst castle_board) (snd castle_board)) = Some 0.
Proof. repeat split; vm_compute; reflexivity. Qed.

(** ** 11(c) legacy: [whiteSquareMask_legacy] = 0xaaaa... selects files, not square colours.  Bishops on c1 and d2
    stand on squares of one colour; the snapshot's test says "not insufficient".  On a board: White Kg1 Bc1 Be3,
    Black Kg8 Nd2; Bxd2 leaves K+B+B (same colour) v K. *)
Definition bb_pos : position :=
  getp (new_position [mkPlacement G1 White King; mkPlacement C1 White Bishop; mkPlacement 12 White Bishop;
                      mkPlacement G8 Black King] 0 0).
Definition bxd2_pos : position :=
  getp (new_position [mkPlacement G1 White King; mkPlacement C1 White Bishop; mkPlacement 19 White Bishop;
                      mkPlacement G8 Black King; mkPlacement 12 Black Knight] 0 0).
Definition Bxd2 := mkMove Capture 19 12 Bishop NoPiece Knight.
Definition bxd2_board := new_board gz [] bxd2_pos White 0 1.
Definition push_only_mask_legacy : pushfn :=
  push_move_with zmove update_noprogress identical_position_count (has_insufficient_material_with whiteSquareMask_legacy).

Example legacy_mask_wrong :
  has_insufficient_material_with whiteSquareMask_legacy bb_pos = false /\
  has_insufficient_material bb_pos = true /\ insufficient (brd (abs_pos bb_pos)) = true /\
  wf_b bxd2_pos White = true /\
  result_of (play_with push_move [Bxd2] (fst bxd2_board) (snd bxd2_board)) = Some (Draw, InsufficientMaterial) /\
  g_now (spec_game bxd2_pos White 0 1 [Bxd2]) = [DrawInsufficient] /\
  result_of (play_with push_move_legacy [Bxd2] (fst bxd2_board) (snd bxd2_board)) = Some (Unknown, NoReason) /\
  result_of (play_with push_only_mask_legacy [Bxd2] (fst bxd2_board) (snd bxd2_board)) = Some (Unknown, NoReason).
Proof. repeat split; vm_compute; reflexivity. Qed.

(** the three legacy behaviours contradict the statements proved for the repaired model *)
Definition drawn_when_due (push : pushfn) : Prop :=
  forall pos turn np fm ms h b, wf_b pos turn = true -> (turn = 0 \/ turn = 1) -> np <= max_int ->
    new_board gz [] pos turn np fm = (h, b) ->
    forall h' b', play_with push ms h b = Some (h', b') -> ms <> [] ->
    g_now (spec_game pos turn np fm ms) <> [] -> outcome (b_result b') = Draw.

Theorem repaired_drawn_when_due : drawn_when_due push_move.
Proof.
  intros pos turn np fm ms h b Hwf Ht Hnp Hnew h' b' Hplay Hne Hnow.
  assert (Hpl : played_board gz pos turn np fm ms h' b').
  { assert (G : forall ms ms0 h b h' b', played_board gz pos turn np fm ms0 h b ->
              play_with push_move ms h b = Some (h', b') -> played_board gz pos turn np fm (ms0 ++ ms) h' b').
    { clear. induction ms as [|m r IH]; intros ms0 h b h' b' Hpl H; cbn [play_with] in H.
      - inversion H; subst. now rewrite app_nil_r.
      - destruct (existsb (move_eqb m) (pseudo_legal_moves (b_position h b) (b_turn b))) eqn:E; [|discriminate].
        apply in_of_existsb in E.
        destruct (push_move gz h b m) as [[h1 b1] ok] eqn:Ep. destruct ok; [|discriminate].
        replace (ms0 ++ m :: r) with ((ms0 ++ [m]) ++ r) by (now rewrite <- app_assoc).
        eapply IH; [|exact H]. econstructor; eauto. }
    change ms with ([] ++ ms). eapply G; [|exact Hplay]. now constructor. }
  exact (proj1 (drawn_iff gz gz_ok pos turn np fm Hwf Ht Hnp ms h' b' Hpl) Hne Hnow).
Qed.

Theorem legacy_not_drawn_when_due : ~ drawn_when_due push_move_legacy.
Proof.
  intros H.
  destruct (play_with push_move_legacy (shuffle ++ shuffle) (fst start_board) (snd start_board)) as [[h b]|] eqn:E;
    [|vm_compute in E; discriminate].
  assert (R : result_of (Some (h, b)) = Some (Unknown, NoReason)) by (rewrite <- E; vm_compute; reflexivity).
  specialize (H start_pos White 0 1%Z (shuffle ++ shuffle) (fst start_board) (snd start_board)
                ltac:(vm_compute; reflexivity) (or_introl eq_refl) ltac:(vm_compute; discriminate) eq_refl h b E ltac:(discriminate)
                ltac:(vm_compute; discriminate)).
  cbn in R. destruct (b_result b) as [o r]. cbn in R, H. inversion R. subst. discriminate.
Qed.

(** ** the half-move clock at the top of the Go [int] range
    FEN [4k3/8/8/8/8/8/8/4K2R w - - 9223372036854775807 1]: White Ke1 Rh1, Black Ke8, no castling rights, set-up
    clock [max_int] = math.MaxInt.  One quiet move (Rh2) later the specification's clock is 2^63 and the
    fifty-move rule applies.

    Before the repair [updateNoProgress] returned [old + 1] on a Go [int]: the clock wrapped to -2^63, and a
    negative clock fails both the fifty-move test [noprogress >= 100] and the guard [i <= limit] (i >= 1) of the
    repetition walk - exactly as the value 0 does.  [update_noprogress_wrap64] is that behaviour carried to the
    [N]-typed clock of the model: the 64-bit two's-complement successor, negative values read as 0 by [Z.to_N].
    (It is exact for the step on which the counter wraps, which is the one the example needs; the eight-ply run
    shows in addition that the draw stays lost - three-fold repetition included, since the look-back window is
    the clock.) *)
Definition wrap_int64 (x : Z) : Z := ((x + 9223372036854775808) mod 18446744073709551616 - 9223372036854775808)%Z.
Definition update_noprogress_wrap64 (old : N) (m : move) : N :=
  if (mtype m =? Normal) || is_castle m then Z.to_N (wrap_int64 (Z.of_N old + 1)) else 0.
Definition push_only_wrap64 : pushfn :=
  push_move_with zmove update_noprogress_wrap64 identical_position_count has_insufficient_material.

Definition wrap_pos : position :=
  getp (new_position [mkPlacement E1 White King; mkPlacement H1 White Rook; mkPlacement E8 Black King] 0 0).
(** Rh2 Kd8 Rh1 Ke8 (h1 = 0, h2 = 8, e8 = 59, d8 = 60) *)
Definition Rh2 := mkMove Normal 0 8 Rook NoPiece NoPiece.
Definition Kd8 := mkMove Normal 59 60 King NoPiece NoPiece.
Definition Rh1 := mkMove Normal 8 0 Rook NoPiece NoPiece.
Definition Ke8 := mkMove Normal 60 59 King NoPiece NoPiece.
Definition rshuffle : list move := [Rh2; Kd8; Rh1; Ke8].
Definition wrap_board := new_board gz [] wrap_pos White max_int 1.

(** the wrap itself: MaxInt + 1 = MinInt on 64 bits; below MaxInt the wrapped counter is the plain successor *)
Example wrap_int64_maxint :
  wrap_int64 (Z.of_N max_int + 1) = (-9223372036854775808)%Z /\
  update_noprogress_wrap64 max_int Rh2 = 0 /\ update_noprogress_wrap64 (max_int - 1) Rh2 = max_int /\
  update_noprogress_wrap64 99 Rh2 = 100.
Proof. repeat split; vm_compute; reflexivity. Qed.

(** repaired model: the clock stays at [max_int] and the game is drawn after the first quiet move *)
Example clock_saturates_example :
  wf_b wrap_pos White = true /\
  g_now (spec_game wrap_pos White max_int 1 [Rh2]) = [DrawNoProgress] /\
  g_clock (spec_game wrap_pos White max_int 1 [Rh2]) = 9223372036854775808%Z /\
  clock_of (play_with push_move [Rh2] (fst wrap_board) (snd wrap_board)) = Some max_int /\
  result_of (play_with push_move [Rh2] (fst wrap_board) (snd wrap_board)) = Some (Draw, NoProgress) /\
  clock_of (play_with push_move (rshuffle ++ rshuffle) (fst wrap_board) (snd wrap_board)) = Some max_int /\
  result_of (play_with push_move (rshuffle ++ rshuffle) (fst wrap_board) (snd wrap_board)) = Some (Draw, NoProgress).
Proof. repeat split; vm_compute; reflexivity. Qed.

(** the same as a [played_board]: the hypotheses of the main theorems are satisfiable with set-up clock
    [max_int] *)
Example clock_saturates_game :
  exists h b, played_board gz wrap_pos White max_int 1 [Rh2] h b /\
    b_noprogress h b = max_int /\ b_result b = mkResult Draw NoProgress.
Proof.
  destruct (play_with push_move [Rh2] (fst wrap_board) (snd wrap_board)) as [[h b]|] eqn:E;
    [|vm_compute in E; discriminate].
  assert (R : result_of (Some (h, b)) = Some (Draw, NoProgress)) by (rewrite <- E; vm_compute; reflexivity).
  assert (C : clock_of (Some (h, b)) = Some max_int) by (rewrite <- E; vm_compute; reflexivity).
  exists h, b. split; [|split].
  - cbn [play_with] in E.
    destruct (existsb (move_eqb Rh2) (pseudo_legal_moves (b_position (fst wrap_board) (snd wrap_board)) (b_turn (snd wrap_board)))) eqn:Ex;
      [|discriminate].
    apply in_of_existsb in Ex.
    destruct (push_move gz (fst wrap_board) (snd wrap_board) Rh2) as [[h1 b1] ok] eqn:Ep. destruct ok; [|discriminate].
    inversion E; subst h1 b1.
    change [Rh2] with ([] ++ [Rh2]). econstructor; [|exact Ex|exact Ep]. constructor. reflexivity.
  - cbn in C. now inversion C.
  - cbn in R. destruct (b_result b) as [o r]. cbn in R. now inversion R.
Qed.

(** legacy (wrapping counter): the clock is lost on the first quiet move, no draw is reported - neither then nor
    after the start position has occurred for the third time - although the specification demands one after
    every move of the game *)
Example clock_wrap_legacy_refuted :
  clock_of (play_with push_only_wrap64 [Rh2] (fst wrap_board) (snd wrap_board)) = Some 0 /\
  result_of (play_with push_only_wrap64 [Rh2] (fst wrap_board) (snd wrap_board)) = Some (Unknown, NoReason) /\
  g_now (spec_game wrap_pos White max_int 1 [Rh2]) = [DrawNoProgress] /\
  result_of (play_with push_only_wrap64 (rshuffle ++ rshuffle) (fst wrap_board) (snd wrap_board)) = Some (Unknown, NoReason) /\
  g_now (spec_game wrap_pos White max_int 1 (rshuffle ++ rshuffle)) = [DrawRep3; DrawNoProgress].
Proof. repeat split; vm_compute; reflexivity. Qed.

Theorem wrap64_not_drawn_when_due : ~ drawn_when_due push_only_wrap64.
Proof.
  intros H.
  destruct (play_with push_only_wrap64 [Rh2] (fst wrap_board) (snd wrap_board)) as [[h b]|] eqn:E;
    [|vm_compute in E; discriminate].
  assert (R : result_of (Some (h, b)) = Some (Unknown, NoReason)) by (rewrite <- E; vm_compute; reflexivity).
  specialize (H wrap_pos White max_int 1%Z [Rh2] (fst wrap_board) (snd wrap_board)
                ltac:(vm_compute; reflexivity) (or_introl eq_refl) (N.le_refl _) eq_refl h b E ltac:(discriminate)
                ltac:(vm_compute; discriminate)).
  cbn in R. destruct (b_result b) as [o r]. cbn in R, H. inversion R. subst. discriminate.
Qed.

Print Assumptions clock_saturates_example.
Print Assumptions clock_saturates_game.
Print Assumptions clock_wrap_legacy_refuted.
Print Assumptions wrap64_not_drawn_when_due.
Print Assumptions threefold_game.
Print Assumptions legacy_window_misses_threefold.
Print Assumptions legacy_castling_resets_clock.
Print Assumptions legacy_mask_wrong.
Print Assumptions repaired_drawn_when_due.
Print Assumptions legacy_not_drawn_when_due.
