(** C02, part 4: every member of [pseudo_legal_moves] of a legal position has the [Shape]
    required by part 2 (unfolding of the emission loops). *)
From Coq Require Import NArith ZArith List Bool Lia ZifyBool ZifyNat ZifyN.
From Morlock.Model Require Import Bits Attacks Move Position Abs.
From Morlock.Lemmas Require Import AttackGeometry_Extra PositionLemmas MoveRefines1 MoveRefines2 MoveRefines3.
Import ListNotations.
Open Scope N_scope.

Lemma tb_not64 x i : x < 2 ^ 64 -> N.testbit (not64 x) i = (i <? 64) && negb (N.testbit x i).
Proof. intros Hx. unfold not64. rewrite N.lxor_spec, PositionLemmas.tb_mask64.
  destruct (N.ltb_spec i 64).
  - rewrite N.ones_spec_low by lia. cbn [andb]. now rewrite xorb_true_r.
  - rewrite N.ones_spec_high by lia. reflexivity. Qed.

Lemma in_emit_move p turn t piece from ab m :
  In m (emit_move p turn t piece from ab) <->
  exists to, N.testbit ab to = true /\
    m = mkMove t from to piece NoPiece (if t =? Capture then capture_at p to turn else NoPiece).
Proof. unfold emit_move. rewrite in_map_iff. split.
  - intros [to [E H]]. exists to. split; [now apply bits_asc_spec | now symmetry].
  - intros [to [H E]]. exists to. split; [now symmetry | now apply bits_asc_spec]. Qed.

Lemma in_emit_promo p turn t piece from ab m :
  In m (emit_promo p turn t piece from ab) <->
  exists to pc, N.testbit ab to = true /\ In pc QueenRookKnightBishop /\
    m = mkMove t from to piece pc (if t =? CapturePromotion then capture_at p to turn else NoPiece).
Proof. unfold emit_promo. rewrite in_flat_map. split.
  - intros [to [H1 H2]]. apply in_map_iff in H2 as [pc [E H2]]. exists to, pc.
    split; [now apply bits_asc_spec|]. split; [assumption | now symmetry].
  - intros [to [pc [H1 [H2 E]]]]. exists to. split; [now apply bits_asc_spec|].
    apply in_map_iff. exists pc. split; [now symmetry | assumption]. Qed.

Lemma pget_bit_vcol p c pc s : Inv p -> pc <= 6 -> N.testbit (pget p c pc) s = true -> vcol c.
Proof. intros HI Hpc Hb. destruct (N.lt_ge_cases c 2) as [L|L]; [unfold vcol; lia|]. exfalso.
  unfold pget, nthN in Hb. rewrite nth_overflow in Hb; [now rewrite N.bits_0 in Hb|].
  rewrite (Inv_len _ HI). unfold pidx. lia. Qed.

Lemma pget_nonzero_vcol p c pc : Inv p -> pc <= 6 -> pget p c pc <> 0 -> vcol c.
Proof. intros HI Hpc Hb. destruct (N.lt_ge_cases c 2) as [L|L]; [unfold vcol; lia|]. exfalso. apply Hb.
  unfold pget, nthN. rewrite nth_overflow; [reflexivity|]. rewrite (Inv_len _ HI). unfold pidx. lia. Qed.

Section ShapeOf.
Variables (p : position) (turn : N).
Hypothesis HI : Inv p.
Hypothesis Ht : vcol turn.
Hypothesis Hok1 : popcount (pget p (opponent turn) King) = 1.
Hypothesis Hchk : is_checked p (opponent turn) = false.

Let opp := opponent turn.
Let mask := not64 (pget p turn NoPiece).
Let captures := pget p opp NoPiece.
Let moves := not64 captures.

Lemma origin_facts piece from : vpc piece -> N.testbit (pget p turn piece) from = true ->
  from < 64 /\ square p from = Some (turn, piece).
Proof. intros Hp Hb. assert (Hf : from < 64) by (eapply word_tb_lt; [apply (pget_word p turn piece HI)|exact Hb]).
  split; [assumption|]. now apply pbit_square. Qed.

Lemma mask_facts to : N.testbit mask to = true -> to < 64 /\ N.testbit (pget p turn NoPiece) to = false.
Proof. unfold mask. rewrite tb_not64 by (now apply pget_word). intros H. apply andb_true_iff in H as [H1 H2].
  apply N.ltb_lt in H1. apply negb_true_iff in H2. auto. Qed.

Lemma moves_facts to : N.testbit moves to = true -> N.testbit (pget p opp NoPiece) to = false.
Proof. unfold moves, captures. rewrite tb_not64 by (now apply pget_word). intros H. apply andb_true_iff in H as [H1 H2].
  now apply negb_true_iff in H2. Qed.

Lemma dest_empty to : to < 64 -> N.testbit (pget p turn NoPiece) to = false ->
  N.testbit (pget p opp NoPiece) to = false -> square p to = None.
Proof. intros Hto H1 H2. apply square_none; try assumption. rewrite (Inv_all _ _ HI).
  unfold opp in H2. destruct Ht as [E|E]; subst turn; cbn [opponent N.eqb White Pos.eqb] in H2;
  unfold White, Black in *; rewrite H1, H2; reflexivity. Qed.

Lemma dest_capture to : to < 64 -> N.testbit (pget p opp NoPiece) to = true ->
  exists q, vpc q /\ square p to = Some (opp, q) /\ capture_at p to turn = q.
Proof. intros Hto H. pose proof (opponent_vcol turn) as Hvo. fold opp in Hvo.
  apply Inv_union_some in H as [q [Hq Hb]]; try assumption. exists q. split; [assumption|]. split.
  - now apply pbit_square.
  - unfold capture_at. fold opp. now rewrite (first_piece_of_bit p opp to q HI Hto Hvo Hq Hb). Qed.

Lemma not_king_of_bit to q : to < 64 -> square p to = Some (opp, q) ->
  (N.testbit (pget p opp King) to = true -> False) -> q <> King.
Proof. intros Hto Hs Hn ->. apply Hn. apply square_some in Hs; tauto. Qed.

(** officers and king: Normal and Capture *)
Lemma piece_normal_shape piece from to : is_slider_or_step piece ->
  N.testbit (pget p turn piece) from = true ->
  N.testbit (N.land (N.land (attackboard (rotated_bb p) from piece) mask) moves) to = true ->
  Shape p turn (mkMove Normal from to piece NoPiece NoPiece).
Proof. intros Hp Hb Hto. rewrite !N.land_spec in Hto. apply andb_true_iff in Hto as [Hto H3]. apply andb_true_iff in Hto as [H1 H2].
  assert (Hv : vpc piece) by (unfold vpc; destruct Hp as [->|[->|[->|[->| ->]]]]; unfold King, Queen, Rook, Knight, Bishop; lia).
  destruct (origin_facts _ _ Hv Hb) as [Hf Ho]. destruct (mask_facts _ H2) as [Ht64 Hown]. pose proof (moves_facts _ H3) as Hopp.
  constructor; cbn [mtype mfrom mto mpiece mpromo mcapture]; try assumption.
  apply MK_normal; cbn [mtype mfrom mto mpiece mpromo mcapture]; try assumption; try reflexivity.
  - destruct Hp as [->|[->|[->|[->| ->]]]]; discriminate.
  - now apply dest_empty.
  - intros ->. exact H1. Qed.

Lemma piece_capture_shape piece from to : is_slider_or_step piece ->
  N.testbit (pget p turn piece) from = true ->
  N.testbit (N.land (N.land (attackboard (rotated_bb p) from piece) mask) captures) to = true ->
  Shape p turn (mkMove Capture from to piece NoPiece (capture_at p to turn)).
Proof. intros Hp Hb Hto. rewrite !N.land_spec in Hto. apply andb_true_iff in Hto as [Hto H3]. apply andb_true_iff in Hto as [H1 H2].
  assert (Hv : vpc piece) by (unfold vpc; destruct Hp as [->|[->|[->|[->| ->]]]]; unfold King, Queen, Rook, Knight, Bishop; lia).
  destruct (origin_facts _ _ Hv Hb) as [Hf Ho]. destruct (mask_facts _ H2) as [Ht64 Hown].
  destruct (dest_capture to Ht64 H3) as [q [Hq [Hs Hc]]].
  constructor; cbn [mtype mfrom mto mpiece mpromo mcapture]; try assumption.
  apply MK_capture; cbn [mtype mfrom mto mpiece mpromo mcapture]; try assumption; try reflexivity.
  - now rewrite Hc.
  - rewrite Hc. apply (not_king_of_bit to q Ht64 Hs). intros Hk.
    exact (no_king_capture_piece p turn piece from to HI Ht Hok1 Hchk Hp Hf Hb H1 Hk).
  - intros ->. exact H1.
  - intros ->. destruct Hp as [E|[E|[E|[E|E]]]]; discriminate. Qed.

(** pawns *)
Lemma promo_rank_bits to : to < 64 -> N.testbit (pawn_promotion_rank turn) to = last_rank_sq turn to.
Proof. intros Hto.
  assert (G : forallb (fun c => forallb (fun t => Bool.eqb (N.testbit (pawn_promotion_rank c) t) (last_rank_sq c t)) (seqN 64)) [0;1] = true)
    by (vm_compute; reflexivity).
  rewrite forallb_forall in G. specialize (G turn (vcol_in _ Ht)). apply eqb_prop. exact (forall64 _ G to Hto). Qed.

Lemma jump_rank_bits to : to < 64 ->
  N.testbit (pawn_jump_rank turn) to = if turn =? 0 then (24 <=? to) && (to <? 32) else (32 <=? to) && (to <? 40).
Proof. intros Hto.
  assert (G : forallb (fun c => forallb (fun t => Bool.eqb (N.testbit (pawn_jump_rank c) t)
      (if c =? 0 then (24 <=? t) && (t <? 32) else (32 <=? t) && (t <? 40))) (seqN 64)) [0;1] = true)
    by (vm_compute; reflexivity).
  rewrite forallb_forall in G. specialize (G turn (vcol_in _ Ht)). apply eqb_prop. exact (forall64 _ G to Hto). Qed.

Lemma push_bits x to : N.testbit (pawn_moveboard (all_bb p) turn x) to = true ->
  to < 64 /\ N.testbit (all_bb p) to = false /\
  (if turn =? 0 then 8 <= to /\ N.testbit x (to - 8) = true else N.testbit x (to + 8) = true).
Proof. unfold pawn_moveboard, White. pose proof (all_bb_word _ HI) as Hw.
  destruct (N.eqb_spec turn 0) as [E|E]; rewrite N.land_spec, tb_not64 by assumption;
  rewrite ?PositionLemmas.tb_shl64, ?tb_shr64; intros H.
  - apply andb_true_iff in H as [H1 H2]. apply andb_true_iff in H2 as [H2 H3]. apply andb_true_iff in H1 as [H1 H4].
    apply andb_true_iff in H1 as [_ H1]. apply N.ltb_lt in H2. apply N.leb_le in H1. apply negb_true_iff in H3. auto.
  - apply andb_true_iff in H as [H1 H2]. apply andb_true_iff in H2 as [H2 H3]. apply N.ltb_lt in H2. apply negb_true_iff in H3. auto. Qed.

Lemma bitmask_bit from i : N.testbit (bitmask from) i = true -> i = from /\ i < 64.
Proof. rewrite PositionLemmas.tb_bitmask. intros H. apply andb_true_iff in H as [H1 H2]. apply N.ltb_lt in H1. apply N.eqb_eq in H2. auto. Qed.

Lemma empty_of_all to : to < 64 -> N.testbit (all_bb p) to = false -> square p to = None.
Proof. intros Hto H. now apply square_none. Qed.

Lemma vpc_pawn : vpc Pawn. Proof. unfold vpc, Pawn. lia. Qed.

Lemma pawn_push_common from to : N.testbit (pget p turn Pawn) from = true ->
  N.testbit (pawn_moveboard (all_bb p) turn (bitmask from)) to = true ->
  from < 64 /\ to < 64 /\ square p from = Some (turn, Pawn) /\ square p to = None /\ pawn_push_rel turn from to = true.
Proof. intros Hb H. destruct (origin_facts _ _ vpc_pawn Hb) as [Hf Ho]. destruct (push_bits _ _ H) as [Hto [Hall Hx]].
  repeat split; try assumption; [now apply empty_of_all|]. unfold pawn_push_rel.
  destruct (N.eqb_spec turn 0) as [E|E].
  - destruct Hx as [H8 Hx]. apply bitmask_bit in Hx as [Hx _]. apply N.eqb_eq. lia.
  - apply bitmask_bit in Hx as [Hx _]. apply N.eqb_eq. lia. Qed.

Lemma pawn_push_shape from to : N.testbit (pget p turn Pawn) from = true ->
  N.testbit (andnot (pawn_moveboard (all_bb p) turn (bitmask from)) (pawn_promotion_rank turn)) to = true ->
  Shape p turn (mkMove Push from to Pawn NoPiece NoPiece).
Proof. intros Hb H. unfold andnot in H. rewrite N.ldiff_spec in H. apply andb_true_iff in H as [H1 H2].
  destruct (pawn_push_common _ _ Hb H1) as [Hf [Hto [Ho [Hd Hrel]]]].
  rewrite promo_rank_bits in H2 by assumption. apply negb_true_iff in H2.
  constructor; cbn [mtype mfrom mto mpiece mpromo mcapture]; try assumption.
  apply MK_push; cbn [mtype mfrom mto mpiece mpromo mcapture]; auto. Qed.

Lemma officer_of_in pc : In pc QueenRookKnightBishop -> is_officer pc.
Proof. cbn. unfold is_officer. intuition. Qed.

Lemma pawn_promo_shape from to pc : N.testbit (pget p turn Pawn) from = true -> In pc QueenRookKnightBishop ->
  N.testbit (N.land (pawn_moveboard (all_bb p) turn (bitmask from)) (pawn_promotion_rank turn)) to = true ->
  Shape p turn (mkMove Promotion from to Pawn pc NoPiece).
Proof. intros Hb Hpc H. rewrite N.land_spec in H. apply andb_true_iff in H as [H1 H2].
  destruct (pawn_push_common _ _ Hb H1) as [Hf [Hto [Ho [Hd Hrel]]]].
  rewrite promo_rank_bits in H2 by assumption.
  constructor; cbn [mtype mfrom mto mpiece mpromo mcapture]; try assumption.
  apply MK_promo; cbn [mtype mfrom mto mpiece mpromo mcapture]; auto using officer_of_in. Qed.

Lemma pawn_jump_shape from to : N.testbit (pget p turn Pawn) from = true ->
  N.testbit (N.land (pawn_moveboard (all_bb p) turn (pawn_moveboard (all_bb p) turn (bitmask from))) (pawn_jump_rank turn)) to = true ->
  Shape p turn (mkMove Jump from to Pawn NoPiece NoPiece).
Proof. intros Hb H. rewrite N.land_spec in H. apply andb_true_iff in H as [H1 H2].
  destruct (origin_facts _ _ vpc_pawn Hb) as [Hf Ho]. destruct (push_bits _ _ H1) as [Hto [Hall Hx]].
  rewrite jump_rank_bits in H2 by assumption.
  assert (Hm : exists mid, mid < 64 /\ N.testbit (all_bb p) mid = false /\
     (if turn =? 0 then mid = from + 8 /\ to = mid + 8 else from = mid + 8 /\ mid = to + 8)).
  { destruct (N.eqb_spec turn 0) as [E|E].
    - destruct Hx as [H8 Hx]. destruct (push_bits _ _ Hx) as [Hm [Hmall Hy]].
      destruct (N.eqb_spec turn 0); [|contradiction]. destruct Hy as [H8' Hy]. apply bitmask_bit in Hy as [Hy _].
      exists (to - 8). repeat split; try assumption; lia.
    - destruct (push_bits _ _ Hx) as [Hm [Hmall Hy]].
      destruct (N.eqb_spec turn 0); [contradiction|]. apply bitmask_bit in Hy as [Hy _].
      exists (to + 8). repeat split; try assumption; lia. }
  destruct Hm as [mid [Hm1 [Hm2 Hm3]]].
  constructor; cbn [mtype mfrom mto mpiece mpromo mcapture]; try assumption.
  apply MK_jump; cbn [mtype mfrom mto mpiece mpromo mcapture]; auto.
  - now apply empty_of_all.
  - unfold pawn_jump_rel. destruct (N.eqb_spec turn 0); lia.
  - replace (jump_mid turn from to) with mid; [now apply empty_of_all|].
    unfold jump_mid. destruct (N.eqb_spec turn 0); lia. Qed.

Lemma pawn_capture_common from to : N.testbit (pget p turn Pawn) from = true ->
  N.testbit (N.land (N.land (pawn_captureboard turn (bitmask from)) mask) captures) to = true ->
  from < 64 /\ to < 64 /\ square p from = Some (turn, Pawn) /\ pawn_cap_rel turn from to = true /\
  square p to = Some (opp, capture_at p to turn) /\ capture_at p to turn <> King.
Proof. intros Hb H. rewrite !N.land_spec in H. apply andb_true_iff in H as [H H3]. apply andb_true_iff in H as [H1 H2].
  destruct (origin_facts _ _ vpc_pawn Hb) as [Hf Ho]. destruct (mask_facts _ H2) as [Hto Hown].
  destruct (dest_capture to Hto H3) as [q [Hq [Hs Hc]]]. rewrite Hc.
  repeat split; try assumption.
  apply (not_king_of_bit to q Hto Hs). intros Hk.
  exact (no_king_capture_pawn p turn from to HI Ht Hok1 Hchk Hf Hb H1 Hk). Qed.

Lemma pawn_capture_shape from to : N.testbit (pget p turn Pawn) from = true ->
  N.testbit (andnot (N.land (N.land (pawn_captureboard turn (bitmask from)) mask) captures) (pawn_promotion_rank turn)) to = true ->
  Shape p turn (mkMove Capture from to Pawn NoPiece (capture_at p to turn)).
Proof. intros Hb H. unfold andnot in H. rewrite N.ldiff_spec in H. apply andb_true_iff in H as [H1 H2].
  destruct (pawn_capture_common _ _ Hb H1) as [Hf [Hto [Ho [Hrel [Hd Hnk]]]]].
  rewrite promo_rank_bits in H2 by assumption. apply negb_true_iff in H2.
  constructor; cbn [mtype mfrom mto mpiece mpromo mcapture]; try assumption.
  apply MK_capture; cbn [mtype mfrom mto mpiece mpromo mcapture]; auto using vpc_pawn.
  intros E; discriminate. Qed.

Lemma pawn_cpromo_shape from to pc : N.testbit (pget p turn Pawn) from = true -> In pc QueenRookKnightBishop ->
  N.testbit (N.land (N.land (N.land (pawn_captureboard turn (bitmask from)) mask) captures) (pawn_promotion_rank turn)) to = true ->
  Shape p turn (mkMove CapturePromotion from to Pawn pc (capture_at p to turn)).
Proof. intros Hb Hpc H. rewrite N.land_spec in H. apply andb_true_iff in H as [H1 H2].
  destruct (pawn_capture_common _ _ Hb H1) as [Hf [Hto [Ho [Hrel [Hd Hnk]]]]].
  rewrite promo_rank_bits in H2 by assumption.
  constructor; cbn [mtype mfrom mto mpiece mpromo mcapture]; try assumption.
  apply MK_cpromo; cbn [mtype mfrom mto mpiece mpromo mcapture]; auto using officer_of_in. Qed.

(** en passant *)
Lemma ep_rank_range e : e < 64 -> (sq_rank e =? 5) = ((40 <=? e) && (e <? 48)) /\ (sq_rank e =? 2) = ((16 <=? e) && (e <? 24)).
Proof. intros He.
  assert (G : forallb (fun e => Bool.eqb (sq_rank e =? 5) ((40 <=? e) && (e <? 48)) && Bool.eqb (sq_rank e =? 2) ((16 <=? e) && (e <? 24))) (seqN 64) = true)
    by (vm_compute; reflexivity).
  pose proof (forall64 _ G e He) as G'. cbv beta in G'. apply andb_true_iff in G' as [G1 G2].
  apply eqb_prop in G1, G2. auto. Qed.

Lemma pawn_ep_shape from to : ep_ok p turn = true -> enpassant p <> 0 ->
  N.testbit (pget p turn Pawn) from = true ->
  N.testbit (N.land (N.land (pawn_captureboard turn (bitmask from)) mask) (bitmask (enpassant p))) to = true ->
  Shape p turn (mkMove EnPassant from to Pawn NoPiece NoPiece).
Proof. intros Hep Hne Hb H. rewrite !N.land_spec in H. apply andb_true_iff in H as [H H3]. apply andb_true_iff in H as [H1 H2].
  destruct (origin_facts _ _ vpc_pawn Hb) as [Hf Ho]. destruct (mask_facts _ H2) as [Hto Hown].
  apply bitmask_bit in H3 as [H3 _].
  unfold ep_ok in Hep. cbv zeta in Hep. destruct (N.eqb_spec (enpassant p) 0) as [|_]; [contradiction|].
  rewrite <- H3 in Hep. destruct (ep_rank_range to Hto) as [R5 R2]. unfold White in Hep.
  constructor; cbn [mtype mfrom mto mpiece mpromo mcapture]; try assumption.
  destruct (N.eqb_spec turn 0) as [E|E].
  - apply andb_true_iff in Hep as [Hep E3]. apply andb_true_iff in Hep as [Hep E2]. apply andb_true_iff in Hep as [E0 E1].
    rewrite R5 in E0. assert (Hr : 40 <= to < 48) by (clear - E0; lia).
    rewrite is_set_tb64 in E1 by (clear - Hr; lia). apply is_empty_square in E2; try assumption.
    apply MK_ep; cbn [mtype mfrom mto mpiece mpromo mcapture]; auto.
    + destruct (N.eqb_spec turn 0); [assumption|contradiction].
    + destruct (N.eqb_spec turn 0); [|contradiction]. rewrite E. change (opponent 0) with Black.
      apply pbit_square; try assumption; try (clear - Hr; lia); [now right | apply vpc_pawn].
  - assert (E' : turn = 1) by (clear - Ht E; unfold vcol in Ht; lia).
    apply andb_true_iff in Hep as [Hep E3]. apply andb_true_iff in Hep as [Hep E2]. apply andb_true_iff in Hep as [E0 E1].
    rewrite R2 in E0. assert (Hr : 16 <= to < 24) by (clear - E0; lia).
    rewrite is_set_tb64 in E1 by (clear - Hr; lia). apply is_empty_square in E2; try assumption.
    apply MK_ep; cbn [mtype mfrom mto mpiece mpromo mcapture]; auto.
    + destruct (N.eqb_spec turn 0); [contradiction|assumption].
    + destruct (N.eqb_spec turn 0); [contradiction|]. rewrite E'. change (opponent 1) with White.
      apply pbit_square; try assumption; try (clear - Hr; lia); [now left | apply vpc_pawn]. Qed.

(** castling helpers *)
Lemma king_home right ksq rsq : home_ok p right ksq rsq turn = true -> is_allowed (castling p) right = true ->
  popcount (pget p turn King) = 1 -> ksq < 64 -> rsq < 64 ->
  ctz (pget p turn King) = ksq /\ square p ksq = Some (turn, King).
Proof. intros Hh Ha Hpc Hk Hr. destruct (home_ok_elim p right ksq rsq turn HI Ht Hk Hr Hh Ha) as [K _].
  split; [|assumption]. apply king_unique; [assumption|]. apply square_some in K; tauto. Qed.

Lemma mask_empty1 a x : N.land x (all_bb p) = 0 -> a < 64 -> N.testbit x a = true -> square p a = None.
Proof. intros H Ha Hx. apply empty_of_all; [assumption|]. destruct (N.testbit (all_bb p) a) eqn:E; [|reflexivity].
  exfalso. eapply (proj1 (land_zero_bits _ _) H); eassumption. Qed.

Lemma rook_at h : negb (N.land (pget p turn Rook) (bitmask h) =? 0) = true -> h < 64 -> square p h = Some (turn, Rook).
Proof. intros H Hh. change (is_set (pget p turn Rook) h = true) in H. rewrite is_set_tb64 in H by assumption.
  apply pbit_square; try assumption. unfold vpc, Rook. lia. Qed.

End ShapeOf.


Lemma in_QRNB_slider piece : In piece QueenRookKnightBishop -> is_slider_or_step piece /\ vpc piece.
Proof. cbn. unfold is_slider_or_step, vpc, Queen, Rook, Knight, Bishop, King.
  intros [<-|[<-|[<-|[<-|[]]]]]; split; auto; lia. Qed.

Theorem pseudo_shape p turn m : wf_b p turn = true -> In m (pseudo_legal_moves p turn) -> Shape p turn m.
Proof. intros Hwf Hin. destruct (wf_b_elim _ _ Hwf) as [HI [KW [KB [Hpw [W1 [W2 [B1 [B2 [Hep Hchk]]]]]]]]].
  unfold pseudo_legal_moves in Hin. cbv zeta in Hin.
  apply in_app_iff in Hin as [Hin|Hin]; [|apply in_app_iff in Hin as [Hin|Hin]].
  - (* officers *)
    apply in_flat_map in Hin as [piece [Hpc Hin]]. apply in_flat_map in Hin as [from [Hfrom Hin]].
    apply bits_asc_spec in Hfrom. destruct (in_QRNB_slider _ Hpc) as [Hsl Hv].
    assert (Ht : vcol turn) by (eapply pget_bit_vcol; [eassumption| |exact Hfrom]; unfold vpc in Hv; lia).
    assert (Hok1 : popcount (pget p (opponent turn) King) = 1) by (destruct Ht as [->| ->]; assumption).
    apply in_app_iff in Hin as [Hin|Hin]; apply in_emit_move in Hin as [to [Hto ->]].
    + eapply piece_normal_shape; eassumption.
    + eapply piece_capture_shape; eassumption.
  - (* pawns *)
    apply in_flat_map in Hin as [from [Hfrom Hin]]. apply bits_asc_spec in Hfrom.
    assert (Ht : vcol turn) by (eapply pget_bit_vcol; [eassumption| |exact Hfrom]; unfold Pawn; lia).
    assert (Hok1 : popcount (pget p (opponent turn) King) = 1) by (destruct Ht as [->| ->]; assumption).
    apply in_app_iff in Hin as [Hin|Hin]; [|apply in_app_iff in Hin as [Hin|Hin]; [|apply in_app_iff in Hin as [Hin|Hin];
      [|apply in_app_iff in Hin as [Hin|Hin]; [|apply in_app_iff in Hin as [Hin|Hin]]]]].
    + apply in_emit_move in Hin as [to [Hto ->]].
      eapply pawn_capture_shape; eassumption.
    + apply in_emit_move in Hin as [to [Hto ->]].
      eapply pawn_push_shape; eassumption.
    + apply in_emit_move in Hin as [to [Hto ->]].
      eapply pawn_jump_shape; eassumption.
    + apply in_emit_promo in Hin as [to [pc [Hto [Hpc ->]]]].
      eapply pawn_cpromo_shape; eassumption.
    + apply in_emit_promo in Hin as [to [pc [Hto [Hpc ->]]]].
      eapply pawn_promo_shape; eassumption.
    + destruct (N.eqb_spec (enpassant p) 0) as [E|E]; cbn [negb] in Hin; [destruct Hin|].
      apply in_emit_move in Hin as [to [Hto ->]].
      eapply pawn_ep_shape; eassumption.
  - (* king *)
    destruct (N.eqb_spec (pget p turn King) 0) as [E|E]; [destruct Hin|].
    assert (Ht : vcol turn) by (eapply pget_nonzero_vcol; [eassumption| |exact E]; unfold King; lia).
    assert (Hok1 : popcount (pget p (opponent turn) King) = 1) by (destruct Ht as [->| ->]; assumption).
    assert (Hown : popcount (pget p turn King) = 1) by (destruct Ht as [->| ->]; assumption).
    destruct (ctz_spec _ E) as [Hfrom _].
    assert (Hsl : is_slider_or_step King) by (now left).
    apply in_app_iff in Hin as [Hin|Hin]; [|apply in_app_iff in Hin as [Hin|Hin]].
    + apply in_emit_move in Hin as [to [Hto ->]].
      eapply piece_normal_shape; eassumption.
    + apply in_emit_move in Hin as [to [Hto ->]].
      eapply piece_capture_shape; eassumption.
    + unfold White in Hin. destruct (N.eqb_spec turn 0) as [E0|E0].
      * (* white castling *) subst turn.
        apply in_app_iff in Hin as [Hin|Hin].
        -- destruct (is_allowed (castling p) WhiteKingSideCastle) eqn:A; [|destruct Hin]. cbn [andb] in Hin.
           destruct (N.eqb_spec (N.land whiteKingSideCastlingMask (all_bb p)) 0) as [M|M]; [|destruct Hin]. cbn [andb] in Hin.
           destruct (negb (N.land (pget p 0 Rook) (bitmask H1) =? 0)) eqn:Rk; [|destruct Hin].
           apply in_emit_move in Hin as [to [Hto ->]]. apply bitmask_bit in Hto as [-> _].
           destruct (king_home p 0 HI Ht _ _ _ W1 A Hown ltac:(reflexivity) ltac:(reflexivity)) as [K1 K2].
           rewrite K1. constructor; cbn [mtype mfrom mto mpiece mpromo mcapture]; try assumption; try reflexivity.
           apply MK_ksc; cbn [mtype mfrom mto mpiece mpromo mcapture home_base N.eqb]; try reflexivity.
           ++ apply (mask_empty1 p HI 1 _ M); reflexivity.
           ++ apply (mask_empty1 p HI 2 _ M); reflexivity.
           ++ apply (rook_at p 0 HI Ht Hok1 Hchk H1 Rk). reflexivity.
        -- destruct (is_allowed (castling p) WhiteQueenSideCastle) eqn:A; [|destruct Hin]. cbn [andb] in Hin.
           destruct (N.eqb_spec (N.land whiteQueenSideCastlingMask (all_bb p)) 0) as [M|M]; [|destruct Hin]. cbn [andb] in Hin.
           destruct (negb (N.land (pget p 0 Rook) (bitmask A1) =? 0)) eqn:Rk; [|destruct Hin].
           apply in_emit_move in Hin as [to [Hto ->]]. apply bitmask_bit in Hto as [-> _].
           destruct (king_home p 0 HI Ht _ _ _ W2 A Hown ltac:(reflexivity) ltac:(reflexivity)) as [K1 K2].
           rewrite K1. constructor; cbn [mtype mfrom mto mpiece mpromo mcapture]; try assumption; try reflexivity.
           apply MK_qsc; cbn [mtype mfrom mto mpiece mpromo mcapture home_base N.eqb]; try reflexivity.
           ++ apply (mask_empty1 p HI 5 _ M); reflexivity.
           ++ apply (mask_empty1 p HI 4 _ M); reflexivity.
           ++ apply (rook_at p 0 HI Ht Hok1 Hchk A1 Rk). reflexivity.
      * (* black castling *)
        assert (turn = 1) by (unfold vcol in Ht; lia). subst turn.
        apply in_app_iff in Hin as [Hin|Hin].
        -- destruct (is_allowed (castling p) BlackKingSideCastle) eqn:A; [|destruct Hin]. cbn [andb] in Hin.
           destruct (N.eqb_spec (N.land blackKingSideCastlingMask (all_bb p)) 0) as [M|M]; [|destruct Hin]. cbn [andb] in Hin.
           destruct (negb (N.land (pget p 1 Rook) (bitmask H8) =? 0)) eqn:Rk; [|destruct Hin].
           apply in_emit_move in Hin as [to [Hto ->]]. apply bitmask_bit in Hto as [-> _].
           destruct (king_home p 1 HI Ht _ _ _ B1 A Hown ltac:(reflexivity) ltac:(reflexivity)) as [K1 K2].
           rewrite K1. constructor; cbn [mtype mfrom mto mpiece mpromo mcapture]; try assumption; try reflexivity.
           apply MK_ksc; cbn [mtype mfrom mto mpiece mpromo mcapture home_base N.eqb Pos.eqb]; try reflexivity.
           ++ apply (mask_empty1 p HI 57 _ M); reflexivity.
           ++ apply (mask_empty1 p HI 58 _ M); reflexivity.
           ++ apply (rook_at p 1 HI Ht Hok1 Hchk H8 Rk). reflexivity.
        -- destruct (is_allowed (castling p) BlackQueenSideCastle) eqn:A; [|destruct Hin]. cbn [andb] in Hin.
           destruct (N.eqb_spec (N.land blackQueenSideCastlingMask (all_bb p)) 0) as [M|M]; [|destruct Hin]. cbn [andb] in Hin.
           destruct (negb (N.land (pget p 1 Rook) (bitmask A8) =? 0)) eqn:Rk; [|destruct Hin].
           apply in_emit_move in Hin as [to [Hto ->]]. apply bitmask_bit in Hto as [-> _].
           destruct (king_home p 1 HI Ht _ _ _ B2 A Hown ltac:(reflexivity) ltac:(reflexivity)) as [K1 K2].
           rewrite K1. constructor; cbn [mtype mfrom mto mpiece mpromo mcapture]; try assumption; try reflexivity.
           apply MK_qsc; cbn [mtype mfrom mto mpiece mpromo mcapture home_base N.eqb Pos.eqb]; try reflexivity.
           ++ apply (mask_empty1 p HI 61 _ M); reflexivity.
           ++ apply (mask_empty1 p HI 60 _ M); reflexivity.
           ++ apply (rook_at p 1 HI Ht Hok1 Hchk A8 Rk). reflexivity.
Qed.
Print Assumptions pseudo_shape.
