(** C05 — main theorems.  A game is played on one board from [new_board z [] pos turn np fm] (legal start
    position, side 0/1) by successful [push_move]s of pseudo-legal moves ([played_board]); the specification
    game is [spec_game pos turn np fm ms] = [g_play_all (g_start ...) (map abs_move ms)].
    The potential function of GameLemmas5 and [zobrist_incremental] (ZobristLemmas3) discharge the
    hypotheses of the generic development (GameLemmas3/4/6); nothing is assumed. *)
From Coq Require Import NArith ZArith List Bool Lia.
From Morlock.Model Require Import Bits Attacks Move Position Abs Zobrist Board.
From Morlock.Spec Require Import Chess Game.
From Morlock.Lemmas Require Import PositionLemmas BoardHeap1 BoardHeap2 BoardHeap3
  GameLemmas1 GameLemmas2 GameLemmas3 GameLemmas4 GameLemmas5 GameLemmas6.
Import ListNotations.
Open Scope N_scope.

Section Main.
Variable z : ztable.
Hypothesis Hzt : zt_ok z.

(** ** 7. push_refines *)
Theorem push_refines : forall h b g m h1 b1, Game z h b g ->
  In m (pseudo_legal_moves (b_position h b) (b_turn b)) -> push_move z h b m = (h1, b1, true) ->
  let g' := g_play g (abs_move m) in
  Game z h1 b1 g' /\ GRel (h1, b1) g' /\
  b_result b1 = result_after (g_now g') (b_result b) /\
  (g_now g' <> [] -> outcome (b_result b1) = Draw) /\
  (outcome (b_result b1) = Draw -> outcome (b_result b) = Draw \/ g_now g' <> []) /\
  rep_get (b_reps b1) (b_hash h1 b1) =
    Z.of_nat (length (filter (fun n => n_hash n =? b_hash h1 b1) (chain h1 (b_current b1)))) /\
  (b_unsat h1 b1 ->
   identical_position_count h1 b1 (b_current b1) (b_turn b1) (b_noprogress h1 b1) =
     occurrences (g_pos g', g_turn g') (g_past g')).
Proof. exact (push_refines_gen z Hzt potential potential_step). Qed.

(** what [result_after (g_now g')] is: the rules are applied in the order repetition, no progress, insufficient
    material, and the last applicable one is the one reported *)
Lemma result_after_g_play g sm old :
  let p := g_pos g in let c := g_turn g in let p' := apply_move p c sm in
  let clock := (if is_capture_move p sm || is_pawn_move p sm then 0 else g_clock g + 1)%Z in
  let occ := occurrences (p', other c) ((p, c) :: g_past g) in
  result_after (g_now (g_play g sm)) old =
  if (occupied (brd p) (sto sm) || s_is_underpromotion sm) && insufficient (brd p')
  then mkResult Draw InsufficientMaterial
  else if (100 <=? clock)%Z then mkResult Draw NoProgress
  else if (5 <=? occ)%Z then mkResult Draw Repetition5
  else if (3 <=? occ)%Z then mkResult Draw Repetition3
  else old.
Proof.
  cbv zeta. unfold g_play. cbn [g_now].
  destruct ((occupied (brd (g_pos g)) (sto sm) || s_is_underpromotion sm) &&
            insufficient (brd (apply_move (g_pos g) (g_turn g) sm)));
  destruct (100 <=? (if is_capture_move (g_pos g) sm || is_pawn_move (g_pos g) sm then 0 else g_clock g + 1))%Z;
  destruct (5 <=? occurrences (apply_move (g_pos g) (g_turn g) sm, other (g_turn g)) ((g_pos g, g_turn g) :: g_past g))%Z;
  destruct (3 <=? occurrences (apply_move (g_pos g) (g_turn g) sm, other (g_turn g)) ((g_pos g, g_turn g) :: g_past g))%Z;
  reflexivity.
Qed.

Lemma g_clock_g_play g sm :
  g_clock (g_play g sm) = (if is_capture_move (g_pos g) sm || is_pawn_move (g_pos g) sm then 0 else g_clock g + 1)%Z.
Proof. reflexivity. Qed.

(** the reason reported: Repetition5 exactly when the position has occurred five times or more and neither the
    50-move rule nor insufficient material applies to the same move (those are checked later and overwrite
    it); similarly for the others *)
Corollary push_reason : forall h b g m h1 b1, Game z h b g ->
  In m (pseudo_legal_moves (b_position h b) (b_turn b)) -> push_move z h b m = (h1, b1, true) ->
  let sm := abs_move m in
  let p := g_pos g in let c := g_turn g in let p' := apply_move p c sm in
  let clock := (if is_capture_move p sm || is_pawn_move p sm then 0 else g_clock g + 1)%Z in
  let occ := occurrences (p', other c) ((p, c) :: g_past g) in
  b_result b1 =
  if (occupied (brd p) (sto sm) || s_is_underpromotion sm) && insufficient (brd p')
  then mkResult Draw InsufficientMaterial
  else if (100 <=? clock)%Z then mkResult Draw NoProgress
  else if (5 <=? occ)%Z then mkResult Draw Repetition5
  else if (3 <=? occ)%Z then mkResult Draw Repetition3
  else b_result b.
Proof.
  intros h b g m h1 b1 HG Hin Hpush. cbv zeta.
  destruct (push_refines h b g m h1 b1 HG Hin Hpush) as (_ & _ & Hres & _).
  rewrite Hres. apply result_after_g_play.
Qed.

Section Played.
Variables (pos : position) (turn np : N) (fm : Z).
Hypothesis Hpos : wf_b pos turn = true.
Hypothesis Hturn : turn = 0 \/ turn = 1.
(** the set-up clock is a Go [int] accepted by [fen.Decode] / [NewBoard]: 0 <= np <= max_int = 2^63 - 1 *)
Hypothesis Hnp : np <= max_int.
Local Notation sg := (spec_game pos turn np fm).
Local Notation played := (played_board z pos turn np fm).

Theorem played_game : forall ms h b, played ms h b -> Game z h b (sg ms) /\ GRel (h, b) (sg ms).
Proof.
  intros ms h b Hpl. pose proof (played_Game z Hzt potential potential_step pos turn np fm Hpos Hturn Hnp ms h b Hpl) as HG.
  split; [exact HG|]. destruct HG as (Hwf & _ & Hrel & _). now apply GRel_ARel.
Qed.

(** ** 1. hash_consistent *)
Theorem hash_consistent : forall ms h b, played ms h b ->
  forall j n, nth_error (chain h (b_current b)) j = Some n ->
  let t := turn_at (b_turn b) j in
  (t = 0 \/ t = 1) /\ wf_b (n_pos n) t = true /\ n_hash n = zhash z (n_pos n) t.
Proof. exact (hash_consistent_gen z Hzt potential potential_step pos turn np fm Hpos Hturn Hnp). Qed.

(** ** 3. rep_map_counts *)
Theorem rep_map_counts : forall ms h b, played ms h b ->
  forall k, rep_get (b_reps b) k = Z.of_nat (length (filter (fun n => n_hash n =? k) (chain h (b_current b)))).
Proof. exact (rep_map_counts_gen z Hzt potential potential_step pos turn np fm Hpos Hturn Hnp). Qed.

(** the board clock is the clock of the specification game, capped at [max_int]; it never exceeds [max_int],
    and the fifty-move test reads the same on both sides, whatever the set-up clock and the number of moves *)
Theorem clock_refines : forall ms h b, played ms h b ->
  Z.of_N (b_noprogress h b) = Z.min (g_clock (sg ms)) (Z.of_N max_int) /\
  b_noprogress h b <= max_int /\
  (noprogressPlyLimit <=? b_noprogress h b) = (100 <=? g_clock (sg ms))%Z.
Proof.
  intros ms h b Hpl. destruct (played_game ms h b Hpl) as [_ (_ & _ & Hc & _)].
  split; [exact Hc|]. split; [exact (clk_rel_le _ _ Hc)|exact (clk_rel_limit _ _ Hc)].
Qed.

(** the history has one node per move played plus the start node *)
Theorem history_length : forall ms h b, played ms h b -> length (chain h (b_current b)) = S (length ms).
Proof. exact (played_length z Hzt potential potential_step pos turn np fm Hpos Hturn Hnp). Qed.

(** [b_unsat] holds in particular for every game of at most [max_int] = 2^63 - 1 moves *)
Lemma unsat_of_length : forall ms h b, played ms h b -> N.of_nat (length ms) <= max_int -> b_unsat h b.
Proof. intros ms h b Hpl Hlen. right. rewrite (history_length ms h b Hpl). lia. Qed.

(** ** 4. window_complete: a node further back than the clock of the head has a different position.
    Premise [b_unsat h b]: the clock is below saturation ([b_noprogress h b < max_int]) or the history has at
    most [max_int + 1] nodes.  (With a saturated clock the walk of the model stops [max_int] plies back; the Go
    loop [for i := 1; i <= limit && tmp != nil] with limit = math.MaxInt stops at the start node only.) *)
Theorem window_complete : forall ms h b, played ms h b -> b_unsat h b ->
  forall j n, nth_error (chain h (b_current b)) j = Some n -> b_noprogress h b < N.of_nat j ->
  abs_pos (n_pos n) <> abs_pos (b_position h b).
Proof. exact (window_complete_gen z Hzt potential potential_step pos turn np fm Hpos Hturn Hnp). Qed.

(** ** 5. ipc_counts *)
Theorem ipc_counts : forall ms h b, played ms h b -> b_unsat h b ->
  identical_position_count h b (b_current b) (b_turn b) (b_noprogress h b) =
  occurrences (g_pos (sg ms), g_turn (sg ms)) (g_past (sg ms)).
Proof. exact (ipc_counts_gen z Hzt potential potential_step pos turn np fm Hpos Hturn Hnp). Qed.

Corollary ipc_counts_len : forall ms h b, played ms h b -> N.of_nat (length ms) <= max_int ->
  identical_position_count h b (b_current b) (b_turn b) (b_noprogress h b) =
  occurrences (g_pos (sg ms), g_turn (sg ms)) (g_past (sg ms)).
Proof. intros ms h b Hpl Hlen. apply ipc_counts; [exact Hpl|exact (unsat_of_length ms h b Hpl Hlen)]. Qed.

(** ** 8. drawn_iff (C05) *)
Theorem drawn_iff : forall ms h b, played ms h b ->
  (ms <> [] -> g_now (sg ms) <> [] -> outcome (b_result b) = Draw) /\
  (outcome (b_result b) = Draw -> g_drawn (sg ms) = true) /\
  (ms = [] -> b_result b = no_result).
Proof. exact (drawn_iff_gen z Hzt potential potential_step pos turn np fm Hpos Hturn Hnp). Qed.

(** the exact result after every move of the game *)
Theorem played_result_exact : forall ms h b m h1 b1, played ms h b ->
  In m (pseudo_legal_moves (b_position h b) (b_turn b)) -> push_move z h b m = (h1, b1, true) ->
  b_result b1 = result_after (g_now (sg (ms ++ [m]))) (b_result b).
Proof. exact (played_result z Hzt potential potential_step pos turn np fm Hpos Hturn Hnp). Qed.

(** a saturated clock still draws: whenever the clock of the board just pushed on has reached the fifty-move
    limit - in particular when it sits at [max_int] - the board reports a draw *)
Theorem saturated_clock_still_draws : forall ms h b m h1 b1, played ms h b ->
  In m (pseudo_legal_moves (b_position h b) (b_turn b)) -> push_move z h b m = (h1, b1, true) ->
  noprogressPlyLimit <= b_noprogress h1 b1 ->
  b_result b1 = mkResult Draw NoProgress \/ b_result b1 = mkResult Draw InsufficientMaterial.
Proof.
  intros ms h b m h1 b1 Hpl Hin Hpush Hsat.
  assert (Hpl1 : played (ms ++ [m]) h1 b1) by (econstructor; eauto).
  destruct (clock_refines _ _ _ Hpl1) as (_ & _ & Hlim).
  rewrite (proj2 (N.leb_le _ _) Hsat) in Hlim.
  rewrite (played_result_exact ms h b m h1 b1 Hpl Hin Hpush).
  rewrite spec_game_snoc in Hlim |- *. rewrite result_after_g_play.
  rewrite g_clock_g_play in Hlim. rewrite <- Hlim.
  destruct (_ && _); [right|left]; reflexivity.
Qed.

(** [g_drawn] is what it says: some condition held after some move of the game so far *)
Lemma g_drawn_spec : forall ms, g_drawn (sg ms) = true <->
  exists k, (0 < k <= length ms)%nat /\ g_now (sg (firstn k ms)) <> [].
Proof.
  induction ms as [|m ms IH] using rev_ind.
  - cbn. split; [discriminate|]. intros [k [Hk _]]. lia.
  - rewrite spec_game_snoc. unfold g_play at 1. cbn [g_drawn]. rewrite orb_true_iff, IH, app_length. cbn [length].
    split.
    + intros [[k [Hk Hn]]|Hn].
      * exists k. split; [lia|]. now rewrite firstn_app, (proj2 (Nat.sub_0_le k (length ms))), app_nil_r by lia.
      * exists (length ms + 1)%nat. split; [lia|].
        rewrite firstn_all2 by (rewrite app_length; cbn; lia). rewrite spec_game_snoc. unfold g_play. cbn [g_now].
        match type of Hn with match ?l with _ => _ end = true => destruct l; [discriminate|discriminate] end.
    + intros [k [Hk Hn]]. destruct (Nat.eq_dec k (length ms + 1)) as [->|Hne].
      * right. rewrite firstn_all2 in Hn by (rewrite app_length; cbn; lia). rewrite spec_game_snoc in Hn.
        unfold g_play in Hn. cbn [g_now] in Hn.
        match type of Hn with ?l <> [] => destruct l; [contradiction|reflexivity] end.
      * left. exists k. split; [lia|].
        now rewrite firstn_app, (proj2 (Nat.sub_0_le k (length ms))), app_nil_r in Hn by lia.
Qed.

End Played.

(** ** 10. forks *)
Theorem fork_game : forall h b g h1 f, Game z h b g -> fork h b = (h1, f) -> Game z h1 f g /\ Game z h1 b g.
Proof. exact (Game_fork z). Qed.

(** whatever is played (pushed, popped back to the fork point at most, adjudicated) on one of the two boards,
    the other still carries the same game, so [push_refines] (hence 3, 5, 7, 8) applies to it *)
Theorem fork_game_original : forall h b g h1 f ops h2 f2 d2, Game z h b g -> fork h b = (h1, f) ->
  run_d zmove update_noprogress true has_insufficient_material false z ops h1 f 0 = Some (h2, f2, d2) ->
  Game z h2 b g.
Proof. exact (Game_fork_isolated_original z). Qed.

Theorem fork_game_fork : forall h b g h1 f ops h2 b2 d2, Game z h b g -> fork h b = (h1, f) ->
  run_d zmove update_noprogress true has_insufficient_material false z ops h1 b 0 = Some (h2, b2, d2) ->
  Game z h2 f g.
Proof. exact (Game_fork_isolated_fork z). Qed.

End Main.

Print Assumptions push_refines.
Print Assumptions push_reason.
Print Assumptions hash_consistent.
Print Assumptions rep_map_counts.
Print Assumptions window_complete.
Print Assumptions ipc_counts.
Print Assumptions ipc_counts_len.
Print Assumptions clock_refines.
Print Assumptions history_length.
Print Assumptions saturated_clock_still_draws.
Print Assumptions drawn_iff.
Print Assumptions played_result_exact.
Print Assumptions g_drawn_spec.
Print Assumptions fork_game.
Print Assumptions fork_game_original.
Print Assumptions fork_game_fork.
