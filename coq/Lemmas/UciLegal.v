(** C04, legality of the answer - summary (parts UciLegal1-4).

    END-TO-END on the sequential UCI model (Model/UciSeq.v, compared line by line with the real driver):

      [go_depth_bestmove_legal]        table off
      [go_depth_bestmove_legal_table]  with a table that holds only true exact values ([b_TTInv]) under
                                       the property's own condition [b_HashValue]
      [go_depth_bestmove_legal_noq]    without quiescence: no leaf condition at all
        `go depth d` (d >= 1, mate distances fit int8) from an engine whose game refines the specification
        game [g] answers with at least one info line followed by exactly one bestmove; the move is legal in
        the position of [g] and is the null move only if that position has no legal move; the engine's own
        game still refines [g], the last line is unchanged.  No assumption on draws: the statement holds
        at roots where a draw can be claimed (threefold repetition on the board, clock >= 100,
        insufficient material); see the computed sessions below.

      [uci_session_legal] / [uci_session_legal_noq] / [uci_positions_then_go_noq]
        over whole sessions (any interleaving of GUI-form `position` lines, `ucinewgame` and `go depth d`,
        continuation lines keeping the table, new positions re-creating it): every go is answered by a
        move that is legal in [setup line] for the last position line, null only without a legal move.

    Hypotheses beyond [ERel]: [EInv] (legal position; not adjudicated mate/stalemate) and [CastledOK]
    (castled flags consistent with the rights) are the engine invariants of C10 / of the search contract;
    both are established by every successful `position` command ([cmd_position_good], part 3), so the
    session theorems do not have them.  [EInv] is needed: [lied_flag_null_move] below is an engine state
    with a legal move where `go depth 1` answers the null move (a board falsely adjudicated checkmate - a
    state the engine never builds; it is the [rootflag_needed] board of SearchBoardInst5).  [CastledOK] is
    what the search contract ([GInv]) asks for; no engine state violating it with an illegal answer is
    known (a probe with both flags set on a board with all rights answered legally).  [zt_ok] is NOT needed
    for legality. *)
From Coq Require Import String Ascii.
From Coq Require Import NArith ZArith List Bool Lia.
From Morlock.Model Require Import Bits Score Attacks Move Position Zobrist Board Search TT SearchBoard Abs Fen Engine EngineSpec UciSeq.
From Morlock.Spec Require Import Chess Game.
From Morlock.Lemmas Require Import BoardHeap1 SearchContract SearchBoardInst1 SearchBoardInst4 SearchBoardInst SearchBoardInst5
     EngineLemmas1 EngineLemmas2 EngineLemmas3 EngineLemmas4.
From Morlock.Lemmas Require Export UciLegal1 UciLegal2 UciLegal3 UciLegal4.
Import ListNotations.
Open Scope Z_scope.

(** * 1. one `go depth d` *)

(** table off *)
Theorem go_depth_bestmove_legal z use_q qfuel u d g outs u' :
  ERel (d_eng (u_d u)) g -> EInv (d_eng (u_d u)) -> CastledOK (d_eng (u_d u)) ->
  u_tt u = NoTT ->
  (1 <= d)%nat -> qh use_q qfuel + Z.of_nat d <= 127 ->
  (forall k, (1 <= k <= d)%nat -> b_leaves_ok z use_q qfuel k true (norm (eabs (d_eng (u_d u))))) ->
  go_depth z use_q qfuel u d = (outs, u') ->
  exists infos best,
    outs = map OInfo infos ++ [OBest best] /\ infos <> [] /\
    match best with
    | Some m => In (abs_move m) (spec_legal (g_pos g) (g_turn g))
    | None => spec_legal (g_pos g) (g_turn g) = []
    end /\
    ERel (d_eng (u_d u')) g /\ EInv (d_eng (u_d u')) /\ CastledOK (d_eng (u_d u')) /\
    d_last (u_d u') = d_last (u_d u) /\ u_tt u' = NoTT.
Proof.
  intros R I C Ht Hd Hq HL Hgo.
  destruct (go_depth_answer z use_q qfuel u d g outs u' R I C (or_introl Ht) Hd Hq HL Hgo)
    as (infos & Eo & Hne & _ & _ & _ & Hb & _ & _ & R' & I' & C' & Hl & _ & _ & _ & Hn).
  exists infos, (best_of infos). auto 10.
Qed.

(** with a table *)
Theorem go_depth_bestmove_legal_table z use_q qfuel u d g outs u' :
  ERel (d_eng (u_d u)) g -> EInv (d_eng (u_d u)) -> CastledOK (d_eng (u_d u)) ->
  b_HashValue z use_q qfuel -> b_TTInv z use_q qfuel (u_tt u) ->
  (1 <= d)%nat -> qh use_q qfuel + Z.of_nat d <= 127 ->
  (forall k, (1 <= k <= d)%nat -> b_leaves_ok z use_q qfuel k true (norm (eabs (d_eng (u_d u))))) ->
  go_depth z use_q qfuel u d = (outs, u') ->
  exists infos best,
    outs = map OInfo infos ++ [OBest best] /\ infos <> [] /\
    match best with
    | Some m => In (abs_move m) (spec_legal (g_pos g) (g_turn g))
    | None => spec_legal (g_pos g) (g_turn g) = []
    end /\
    ERel (d_eng (u_d u')) g /\ EInv (d_eng (u_d u')) /\ CastledOK (d_eng (u_d u')) /\
    d_last (u_d u') = d_last (u_d u) /\ b_TTInv z use_q qfuel (u_tt u').
Proof.
  intros R I C Hh HT Hd Hq HL Hgo.
  destruct (go_depth_answer z use_q qfuel u d g outs u' R I C (or_intror (conj Hh HT)) Hd Hq HL Hgo)
    as (infos & Eo & Hne & _ & _ & _ & Hb & _ & _ & R' & I' & C' & Hl & _ & _ & HT' & _).
  exists infos, (best_of infos). repeat (split; [assumption|]).
  destruct HT' as [Hn|[_ HT']]; [|exact HT']. rewrite Hn. intros h bound d0 sc m Hr. discriminate Hr.
Qed.

(** without quiescence the leaf condition is void; any table status *)
Theorem go_depth_bestmove_legal_noq z qfuel u d g outs u' :
  ERel (d_eng (u_d u)) g -> EInv (d_eng (u_d u)) -> CastledOK (d_eng (u_d u)) ->
  TabOK z false qfuel (u_tt u) -> (1 <= d <= 127)%nat ->
  go_depth z false qfuel u d = (outs, u') ->
  exists infos best,
    outs = map OInfo infos ++ [OBest best] /\ infos <> [] /\
    match best with
    | Some m => In (abs_move m) (spec_legal (g_pos g) (g_turn g))
    | None => spec_legal (g_pos g) (g_turn g) = []
    end /\
    ERel (d_eng (u_d u')) g /\ EInv (d_eng (u_d u')) /\ CastledOK (d_eng (u_d u')) /\
    d_last (u_d u') = d_last (u_d u) /\ TabOK z false qfuel (u_tt u').
Proof.
  intros R I C HT Hd Hgo.
  destruct (go_depth_answer z false qfuel u d g outs u' R I C HT ltac:(lia) ltac:(unfold qh; lia)
              (LeavesUpTo_noq z false qfuel d _ eq_refl) Hgo)
    as (infos & Eo & Hne & _ & _ & _ & Hb & _ & _ & R' & I' & C' & Hl & _ & _ & HT' & _).
  exists infos, (best_of infos). auto 10.
Qed.

(** * 2. tables the Hash option creates *)
Lemma empty_table_reads_none n w h : tt_read (mkTable (repeat None n) w) h = None.
Proof.
  unfold tt_read, nthN. cbn [slots]. rewrite nth_repeat. reflexivity.
Qed.

Lemma new_table_TTInv z use_q qfuel size t : new_table size = Some t -> b_TTInv z use_q qfuel (TableTT t).
Proof.
  unfold new_table. destruct (slot_count size) as [n|]; [|intros H; discriminate H].
  intros H. injection H as <-. intros h bound d sc m Hr. cbn [ttv_read] in Hr.
  rewrite empty_table_reads_none in Hr. discriminate Hr.
Qed.

(** the table maker of the correspondence runs: Hash = 0 -> no table, else a fresh table of [size] bytes *)
Definition mk_table_of (size : N) : N -> ttv :=
  fun h => if (h =? 0)%N then NoTT else match new_table size with Some t => TableTT t | None => NoTT end.

Lemma mk_table_of_ok z use_q qfuel size : b_HashValue z use_q qfuel -> forall h, TabOK z use_q qfuel (mk_table_of size h).
Proof.
  intros Hh h. unfold mk_table_of. destruct (h =? 0)%N; [left; reflexivity|].
  destruct (new_table size) as [t|] eqn:E; [|left; reflexivity].
  right. split; [exact Hh|]. exact (new_table_TTInv z use_q qfuel size t E).
Qed.

(** * 3. whole sessions *)

(** general form: any evaluation configuration, any table maker that yields sound tables *)
Theorem uci_session_legal z use_q qfuel mk_table :
  (forall h, TabOK z use_q qfuel (mk_table h)) ->
  (forall d p, GInv p -> LeavesUpTo z use_q qfuel d p) ->
  forall cmds u0, d_last (u_d u0) = [] -> Forall (valid_ucmd use_q qfuel) cmds ->
  exists answers, session z use_q qfuel mk_table u0 None cmds = Some answers /\ Forall answered answers /\
    length answers = length (filter (fun c => match c with UGo _ => true | _ => false end) cmds).
Proof.
  intros Hmk HL cmds u0 H0 Hv. exact (session_answers z use_q qfuel mk_table Hmk HL cmds u0 None H0 Hv).
Qed.

(** without quiescence, Hash option off or on (then under [b_HashValue]): no side condition is left *)
Theorem uci_session_legal_noq z qfuel size :
  b_HashValue z false qfuel ->
  forall cmds u0, d_last (u_d u0) = [] -> Forall (valid_ucmd false qfuel) cmds ->
  exists answers, session z false qfuel (mk_table_of size) u0 None cmds = Some answers /\ Forall answered answers /\
    length answers = length (filter (fun c => match c with UGo _ => true | _ => false end) cmds).
Proof.
  intros Hh. apply uci_session_legal.
  - apply mk_table_of_ok. exact Hh.
  - intros d p _. apply LeavesUpTo_noq. reflexivity.
Qed.

Theorem uci_session_legal_noq_nott z qfuel :
  forall cmds u0, d_last (u_d u0) = [] -> Forall (valid_ucmd false qfuel) cmds ->
  exists answers, session z false qfuel (fun _ => NoTT) u0 None cmds = Some answers /\ Forall answered answers /\
    length answers = length (filter (fun c => match c with UGo _ => true | _ => false end) cmds).
Proof.
  apply uci_session_legal.
  - intros h. left. reflexivity.
  - intros d p _. apply LeavesUpTo_noq. reflexivity.
Qed.

(** the form asked for: GUI-form position lines, then `go depth d`; table off, no quiescence *)
Theorem uci_positions_then_go_noq z qfuel lines line d u0 :
  d_last (u_d u0) = [] ->
  Forall (fun l => valid_cmd (CPosition l)) (lines ++ [line]) -> (1 <= d <= 127)%nat ->
  exists outs g infos,
    session z false qfuel (fun _ => NoTT) u0 None (map UPos (lines ++ [line]) ++ [UGo d]) = Some [(Some line, d, outs)] /\
    setup line = Some g /\
    outs = map OInfo infos ++ [OBest (best_of infos)] /\ infos <> [] /\ (length infos <= d)%nat /\
    match best_of infos with
    | Some m => In (abs_move m) (spec_legal (g_pos g) (g_turn g))
    | None => spec_legal (g_pos g) (g_turn g) = []
    end.
Proof.
  intros H0 Hv Hd.
  apply (positions_then_go z false qfuel (fun _ => NoTT)); try assumption; try lia.
  - intros h. left. reflexivity.
  - intros d' p _. apply LeavesUpTo_noq. reflexivity.
  - unfold qh. lia.
Qed.

(** * 4. computed sessions (Zobrist table [zt0] of EngineLemmas4): roots where a draw can be claimed *)
Definition u_start : ueng := mkU st0 NoTT 0 0.
Definition no_table : N -> ttv := fun _ => NoTT.
Definition l_shuffle : str := s2l "position startpos moves g1f3 g8f6 f3g1 f6g8 g1f3 g8f6 f3g1 f6g8".
Definition l_clock : str := s2l "position fen 4k3/8/8/8/8/8/8/R3K3 w - - 99 80 moves a1a2".
Definition l_bare : str := s2l "position fen 4k3/8/8/8/8/8/4n3/4K3 w - - 0 1 moves e1e2".
Definition l_stale : str := s2l "position fen 7k/5Q2/6K1/8/8/8/8/8 b - - 0 1".

(** the result field of the engine's board after the line, and the bestmove of `go depth 2` *)
Definition root_and_best (line : str) : option (N * reason) * list (option move) :=
  (match u_position zt0 no_table u_start line with
   | Some u => let r := b_result (e_board (d_eng (u_d u))) in Some (Board.outcome r, Board.rreason r)
   | None => None
   end,
   match session zt0 false 0 no_table u_start None [UPos line; UGo 2] with
   | Some [(_, _, outs)] => flat_map (fun o => match o with OBest b => [b] | _ => [] end) outs
   | _ => []
   end).

Definition nb1c3 : move := mkMove Normal 1 16 Knight NoPiece NoPiece.
Definition ke8d7 : move := mkMove Normal 59 50 King NoPiece NoPiece.

(** threefold repetition on the board; half-move clock 100; bare kings after a capture: the root reports a
    draw and the go is answered by a move (not 0000) *)
Example drawn_roots_answered :
  root_and_best l_shuffle = (Some (Board.Draw, Repetition3), [Some nb1c3]) /\
  root_and_best l_clock = (Some (Board.Draw, NoProgress), [Some ke8d7]) /\
  root_and_best l_bare = (Some (Board.Draw, InsufficientMaterial), [Some ke8d7]).
Proof. vm_compute. repeat split; reflexivity. Qed.

(** stalemate at the root: the null move *)
Example stalemate_null_move : root_and_best l_stale = (Some (Board.Unknown, NoReason), [None]).
Proof. vm_compute. reflexivity. Qed.

(** the session theorem applied to these lines (its hypotheses hold) *)
Lemma fen_legal_of_compute fen :
  match decode fen with Ok (pos, t, _, _) => wf_b pos t | _ => false end = true -> fen_legal fen.
Proof.
  unfold fen_legal. destruct (decode fen) as [[[[pos t] np] fm]| |]; intros H; try discriminate H.
  exists pos, t, np, fm. split; [reflexivity|exact H].
Qed.

Example sessions_by_theorem :
  exists answers,
    session zt0 false 0 no_table u_start None
      [UPos l_shuffle; UGo 2; UNew; UGo 1; UPos l_clock; UGo 2; UPos l_bare; UGo 3; UPos l_stale; UGo 2] = Some answers /\
    Forall answered answers /\ length answers = 5%nat.
Proof.
  assert (V1 : valid_cmd (CPosition l_shuffle)) by (apply valid_line; [vm_compute; reflexivity..|left; vm_compute; reflexivity]).
  assert (V2 : valid_cmd (CPosition l_clock))
    by (apply valid_line; [vm_compute; reflexivity..|right; apply fen_legal_of_compute; vm_compute; reflexivity]).
  assert (V3 : valid_cmd (CPosition l_bare))
    by (apply valid_line; [vm_compute; reflexivity..|right; apply fen_legal_of_compute; vm_compute; reflexivity]).
  assert (V4 : valid_cmd (CPosition l_stale))
    by (apply valid_line; [vm_compute; reflexivity..|right; apply fen_legal_of_compute; vm_compute; reflexivity]).
  apply (uci_session_legal_noq_nott zt0 0); [reflexivity|].
  repeat (apply Forall_cons; [first [assumption | exact I | (split; [lia|unfold qh; lia])]|]). apply Forall_nil.
Qed.

(** * 5. the legal-state hypothesis is needed *)
(** K+R vs K, White to move has the mate Ra8; the board is (falsely) adjudicated checkmate, so PushMove
    refuses every move: the depth-1 search sees no legal move and the driver answers 0000.  The engine never
    builds such a board (only the search adjudicates, on its own fork).  (At `go depth 2` the same state
    answers Ra8: the depth-1 search leaves the fork adjudicated Draw/Stalemate, a draw flag, which the
    depth-2 search clears at the root.) *)
Example lied_flag_null_move :
  let u := mkU (mkD (mkEngine (fst kr_lied) (snd kr_lied)) []) NoTT 0 0 in
  (let (outs, _) := go_depth z0 false 0 u 1 in flat_map (fun o => match o with OBest b => [b] | _ => [] end) outs) = [None] /\
  legal_moves (b_position (fst kr_lied) (snd kr_lied)) (b_turn (snd kr_lied)) <> [].
Proof. split; [vm_compute; reflexivity|vm_compute; discriminate]. Qed.

Print Assumptions go_depth_bestmove_legal.
Print Assumptions go_depth_bestmove_legal_table.
Print Assumptions go_depth_bestmove_legal_noq.
Print Assumptions uci_session_legal.
Print Assumptions uci_session_legal_noq.
Print Assumptions uci_session_legal_noq_nott.
Print Assumptions uci_positions_then_go_noq.
Print Assumptions drawn_roots_answered.
Print Assumptions sessions_by_theorem.
Print Assumptions lied_flag_null_move.

(** * 4. C10 over sessions with searches and option changes (UciLegal5) *)
From Morlock.Lemmas Require Import UciLegal5.

(** without quiescence, Hash option off or on: after ANY list of GUI-form position lines, ucinewgame,
    go depth d (1..127) and setoption-Hash commands the driver is alive and the engine game is the one
    the last position line describes, built from that line alone on the specification *)
Theorem uci_session_game_noq z qfuel size :
  b_HashValue z false qfuel ->
  forall cmds u0 line, d_last (u_d u0) = [] -> Forall (valid_ucmd2 false qfuel) cmds ->
  last_of None cmds = Some line ->
  exists u' g, srun z false qfuel (mk_table_of size) u0 None cmds = Some (u', Some line) /\
               setup line = Some g /\ ERel (d_eng (u_d u')) g /\ EInv (d_eng (u_d u')).
Proof.
  intros Hh cmds u0 line H0 Hv Hl.
  apply (session_game z false qfuel (mk_table_of size)); try assumption.
  - apply mk_table_of_ok. exact Hh.
  - intros d p _. apply LeavesUpTo_noq. reflexivity.
Qed.
Print Assumptions uci_session_game_noq.
