(** AttackGeometry_Extra — [bits_asc], [ctz], [popcount] characterised through [N.testbit]. *)
From Coq Require Import NArith List Bool Lia ZifyBool ZifyNat ZifyN Sorted.
From Morlock.Model Require Import Bits.
From Morlock.Lemmas Require Import AttackGeometry1.
Import ListNotations.
Open Scope N_scope.

(** * [pos_bits] *)

Lemma pos_xI_eq q : N.pos q~1 = 2 * N.pos q + 1. Proof. reflexivity. Qed.
Lemma pos_xO_eq q : N.pos q~0 = 2 * N.pos q. Proof. reflexivity. Qed.

Lemma pos_bits_spec p : forall i s,
  In s (pos_bits p i) <-> i <= s /\ N.testbit (N.pos p) (s - i) = true.
Proof.
  induction p as [q IH|q IH|]; intros i s; cbn [pos_bits].
  - cbn [In]. rewrite IH, pos_xI_eq. split.
    + intros [<-|[H1 H2]].
      * split; [lia|]. rewrite N.sub_diag. apply N.testbit_odd_0.
      * split; [lia|]. replace (s - i) with (N.succ (s - (i + 1))) by lia.
        rewrite N.testbit_odd_succ by lia. exact H2.
    + intros [H1 H2]. destruct (N.eq_dec i s) as [E|E]; [now left|right].
      split; [lia|]. replace (s - i) with (N.succ (s - (i + 1))) in H2 by lia.
      rewrite N.testbit_odd_succ in H2 by lia. exact H2.
  - rewrite IH, pos_xO_eq. split.
    + intros [H1 H2]. split; [lia|]. replace (s - i) with (N.succ (s - (i + 1))) by lia.
      rewrite N.testbit_even_succ by lia. exact H2.
    + intros [H1 H2]. destruct (N.eq_dec i s) as [E|E].
      * subst. rewrite N.sub_diag, N.testbit_even_0 in H2. discriminate.
      * split; [lia|]. replace (s - i) with (N.succ (s - (i + 1))) in H2 by lia.
        rewrite N.testbit_even_succ in H2 by lia. exact H2.
  - cbn [In]. split.
    + intros [<-|[]]. split; [lia|]. now rewrite N.sub_diag.
    + intros [H1 H2]. left. destruct (N.eq_dec i s) as [E|E]; [exact E|].
      exfalso. replace (s - i) with (N.succ (s - (i + 1))) in H2 by lia.
      change 1 with (2 * 0 + 1) in H2. rewrite N.testbit_odd_succ, N.bits_0 in H2 by lia. discriminate.
Qed.

Lemma pos_bits_sorted p : forall i, StronglySorted N.lt (pos_bits p i).
Proof.
  induction p as [q IH|q IH|]; intros i; cbn [pos_bits].
  - constructor; [apply IH|]. apply Forall_forall. intros s Hs. apply pos_bits_spec in Hs. lia.
  - apply IH.
  - constructor; constructor.
Qed.

Lemma pos_bits_hd p : forall i d, hd d (pos_bits p i) = i + pos_ctz p.
Proof.
  induction p as [q IH|q IH|]; intros i d; cbn [pos_bits pos_ctz hd].
  - lia.
  - rewrite IH. lia.
  - lia.
Qed.

Lemma pos_bits_length p : forall i, N.of_nat (length (pos_bits p i)) = pos_popcount p.
Proof.
  induction p as [q IH|q IH|]; intros i; cbn [pos_bits pos_popcount length].
  - rewrite Nat2N.inj_succ, IH. lia.
  - apply IH.
  - reflexivity.
Qed.

(** * generic facts on strictly ascending lists *)

Lemma ssorted_nodup l : StronglySorted N.lt l -> NoDup l.
Proof.
  induction 1 as [|a l Hs IH Hf]; constructor; [|exact IH].
  intro Hin. rewrite Forall_forall in Hf. specialize (Hf a Hin). lia.
Qed.

Lemma ssorted_ext l1 : forall l2, StronglySorted N.lt l1 -> StronglySorted N.lt l2 ->
  (forall x, In x l1 <-> In x l2) -> l1 = l2.
Proof.
  induction l1 as [|a l1 IH]; intros l2 S1 S2 H.
  - destruct l2 as [|b l2]; [reflexivity|]. exfalso. apply (H b). now left.
  - destruct l2 as [|b l2]; [exfalso; apply (H a); now left|].
    inversion S1 as [|? ? S1' F1]; subst. inversion S2 as [|? ? S2' F2]; subst.
    rewrite Forall_forall in F1, F2.
    assert (E : a = b).
    { destruct (proj1 (H a) (or_introl eq_refl)) as [E|Ha]; [now symmetry|].
      destruct (proj2 (H b) (or_introl eq_refl)) as [E|Hb]; [exact E|].
      specialize (F1 b Hb). specialize (F2 a Ha). lia. }
    subst b. f_equal. apply IH; auto.
    intros x. split; intros Hx.
    + destruct (proj1 (H x) (or_intror Hx)) as [E|Hx']; [|exact Hx'].
      subst x. specialize (F1 a Hx). lia.
    + destruct (proj2 (H x) (or_intror Hx)) as [E|Hx']; [|exact Hx'].
      subst x. specialize (F2 a Hx). lia.
Qed.

(** * [bits_asc] *)

Theorem bits_asc_spec b s : In s (bits_asc b) <-> N.testbit b s = true.
Proof.
  destruct b as [|p]; cbn [bits_asc].
  - rewrite N.bits_0. split; [intros []|discriminate].
  - rewrite pos_bits_spec, N.sub_0_r. split; [tauto|]. intros H; split; [lia|exact H].
Qed.

Theorem bits_asc_sorted b : StronglySorted N.lt (bits_asc b).
Proof. destruct b as [|p]; cbn [bits_asc]; [constructor|apply pos_bits_sorted]. Qed.

Theorem bits_asc_nodup b : NoDup (bits_asc b).
Proof. apply ssorted_nodup, bits_asc_sorted. Qed.

Theorem bits_asc_lt64 b s : b < 2 ^ 64 -> In s (bits_asc b) -> s < 64.
Proof.
  intros Hb Hs. apply bits_asc_spec in Hs. destruct (N.lt_ge_cases s 64) as [L|L]; [exact L|].
  rewrite (high_bits_zero _ _ Hb L) in Hs. discriminate.
Qed.

(** the list is determined by the bits *)
Theorem bits_asc_unique b l : StronglySorted N.lt l -> (forall s, In s l <-> N.testbit b s = true) ->
  bits_asc b = l.
Proof.
  intros Hl H. apply ssorted_ext; [apply bits_asc_sorted|exact Hl|].
  intros x. rewrite bits_asc_spec. symmetry. apply H.
Qed.

Theorem ctz_hd b : ctz b = hd 64 (bits_asc b).
Proof. destruct b as [|p]; cbn [ctz bits_asc]; [reflexivity|]. now rewrite pos_bits_hd. Qed.

Theorem popcount_length b : popcount b = N.of_nat (length (bits_asc b)).
Proof. destruct b as [|p]; cbn [popcount bits_asc]; [reflexivity|]. now rewrite pos_bits_length. Qed.

Lemma pos_bits_nonempty p : forall i, pos_bits p i <> [].
Proof. induction p as [q IH|q IH|]; intros i; cbn [pos_bits]; [discriminate|apply IH|discriminate]. Qed.

Theorem bits_asc_nil b : bits_asc b = [] <-> b = 0.
Proof.
  split; [|intros ->; reflexivity]. destruct b as [|p]; [reflexivity|].
  cbn [bits_asc]. intros H. now apply pos_bits_nonempty in H.
Qed.

(** [ctz] is the least set bit *)
Theorem ctz_spec b : b <> 0 ->
  N.testbit b (ctz b) = true /\ forall j, j < ctz b -> N.testbit b j = false.
Proof.
  intros Hb. rewrite ctz_hd. pose proof (bits_asc_sorted b) as S.
  pose proof (bits_asc_spec b) as Sp.
  destruct (bits_asc b) as [|a l] eqn:E.
  - apply bits_asc_nil in E. contradiction.
  - cbn [hd]. split; [apply Sp; now left|].
    intros j Hj. destruct (N.testbit b j) eqn:T; [|reflexivity].
    apply Sp in T. inversion S as [|? ? S' F]; subst. rewrite Forall_forall in F.
    destruct T as [->|T]; [lia|]. specialize (F j T). lia.
Qed.

Theorem ctz_lt64 b : b <> 0 -> b < 2 ^ 64 -> ctz b < 64.
Proof.
  intros Hn Hb. destruct (ctz_spec b Hn) as [H _].
  destruct (N.lt_ge_cases (ctz b) 64) as [L|L]; [exact L|].
  rewrite (high_bits_zero _ _ Hb L) in H. discriminate.
Qed.

Theorem ctz_zero : ctz 0 = 64. Proof. reflexivity. Qed.

(** the emission loop [sq := LastPopSquare(b); b ^= BitMask(sq)] walks [bits_asc b] *)
Theorem bits_asc_pop b : b <> 0 -> b < 2 ^ 64 ->
  bits_asc b = ctz b :: bits_asc (N.lxor b (bitmask (ctz b))).
Proof.
  intros Hn Hb. destruct (ctz_spec b Hn) as [H1 H2]. pose proof (ctz_lt64 b Hn Hb) as H3.
  apply bits_asc_unique.
  - constructor; [apply bits_asc_sorted|]. apply Forall_forall. intros s Hs.
    apply bits_asc_spec in Hs. rewrite N.lxor_spec, tb_bitmask in Hs.
    destruct (N.lt_trichotomy s (ctz b)) as [L|[E|L]]; [|subst s|exact L].
    + rewrite (H2 s L) in Hs. destruct (N.eqb_spec (ctz b) s); [lia|].
      rewrite andb_false_r in Hs. discriminate.
    + rewrite H1, N.eqb_refl in Hs. destruct (N.ltb_spec (ctz b) 64); [discriminate|lia].
  - intros s. cbn [In]. rewrite bits_asc_spec, N.lxor_spec, tb_bitmask. split.
    + intros [<-|H]; [exact H1|].
      destruct (N.eqb_spec (ctz b) s) as [E|E]; [subst s|].
      * rewrite H1 in H. destruct (N.ltb_spec (ctz b) 64); [discriminate|lia].
      * rewrite andb_false_r, xorb_false_r in H. exact H.
    + intros H. destruct (N.eqb_spec (ctz b) s) as [E|E]; [now left|right].
      now rewrite H, andb_false_r.
Qed.

Theorem lxor_ctz_lt64 b : b < 2 ^ 64 -> N.lxor b (bitmask (ctz b)) < 2 ^ 64.
Proof.
  intros Hb. destruct (N.eq_dec (N.lxor b (bitmask (ctz b))) 0) as [->|Hn]; [reflexivity|].
  apply N.log2_lt_pow2; [lia|].
  destruct (N.lt_ge_cases (N.log2 (N.lxor b (bitmask (ctz b)))) 64) as [L|L]; [exact L|].
  exfalso. pose proof (N.bit_log2 _ Hn) as T. rewrite N.lxor_spec, tb_bitmask in T.
  rewrite (high_bits_zero _ _ Hb L) in T.
  destruct (N.ltb_spec (N.log2 (N.lxor b (bitmask (ctz b)))) 64); [lia|]. discriminate.
Qed.

Theorem popcount_pop b : b <> 0 -> b < 2 ^ 64 ->
  popcount b = 1 + popcount (N.lxor b (bitmask (ctz b))).
Proof.
  intros Hn Hb. rewrite !popcount_length, (bits_asc_pop b Hn Hb) at 1. cbn [length]. lia.
Qed.

Print Assumptions bits_asc_spec.
Print Assumptions bits_asc_sorted.
Print Assumptions bits_asc_nodup.
Print Assumptions ctz_hd.
Print Assumptions popcount_length.
Print Assumptions ctz_spec.
Print Assumptions bits_asc_pop.
Print Assumptions popcount_pop.
