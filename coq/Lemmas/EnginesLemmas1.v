(** EnginesLemmas1 — C20, part 1: the "no under-promotion" filter never starves.
    Specification side: the legality of a promotion does not depend on the promotion piece and every
    promotion candidate has its queen sibling; transfer through [legal_moves_fide]. *)
From Coq Require Import NArith ZArith List Bool Lia.
From Morlock.Model Require Import Bits Attacks Move Position Abs Search Fen Engines.
From Morlock.Spec Require Import Chess.
From Morlock.Lemmas Require Import PositionLemmas MoveGen1 MoveGen10.
Import ListNotations.

(* ------------------------------------------------------------------ *)
(** * boards that differ only in the kind of some non-king pieces of colour [c] *)

Definition sim (c : color) (b b' : mboard) : Prop :=
  length b = length b' /\
  forall s, at_ b s = at_ b' s \/
            (exists k k', at_ b s = Some (c, k) /\ at_ b' s = Some (c, k') /\ k <> K /\ k' <> K).

Lemma sim_refl c b : sim c b b.
Proof. split; [reflexivity|]. intros s. now left. Qed.

Lemma set_cell_ge b : forall s v, (length b <= s)%nat -> set_cell b s v = b.
Proof.
  induction b as [|x r IH]; intros [|s] v H; cbn in *; try reflexivity; try lia.
  f_equal. apply IH. lia.
Qed.

Lemma sim_set_cell c b b' s v : sim c b b' -> sim c (set_cell b s v) (set_cell b' s v).
Proof.
  intros [Hl H]. split; [now rewrite !length_set_cell|].
  destruct (Nat.lt_ge_cases s (length b)) as [L|L].
  - intros t. unfold at_. rewrite !set_cell_nth by lia.
    destruct (Nat.eqb t s); [now left|apply H].
  - rewrite (set_cell_ge b) by lia. rewrite (set_cell_ge b') by lia. exact H.
Qed.

Lemma sim_place c b t k k' : k <> K -> k' <> K ->
  sim c (set_cell b t (Some (c, k))) (set_cell b t (Some (c, k'))).
Proof.
  intros Hk Hk'. split; [now rewrite !length_set_cell|].
  destruct (Nat.lt_ge_cases t (length b)) as [L|L].
  - intros s. unfold at_. rewrite !set_cell_nth by lia.
    destruct (Nat.eqb s t); [right; now exists k, k'|now left].
  - rewrite !(set_cell_ge b) by lia. intros s. now left.
Qed.

Lemma sim_occupied c b b' : sim c b b' -> forall s, occupied b s = occupied b' s.
Proof.
  intros [_ H] s. unfold occupied. destruct (H s) as [E|[k [k' [E [E' _]]]]]; [now rewrite E|now rewrite E, E'].
Qed.

Lemma find_ext {A} (f g : A -> bool) l : (forall x, f x = g x) -> find f l = find g l.
Proof. intros H. induction l as [|a l IH]; cbn; [reflexivity|]. now rewrite H, IH. Qed.

Lemma existsb_ext {A} (f g : A -> bool) l : (forall x, f x = g x) -> existsb f l = existsb g l.
Proof. intros H. induction l as [|a l IH]; cbn; [reflexivity|]. now rewrite H, IH. Qed.

Lemma color_eqb_other c : color_eqb c (other c) = false.
Proof. now destruct c. Qed.

Lemma sim_king_square c b b' : sim c b b' -> king_square b c = king_square b' c.
Proof.
  intros [_ H]. unfold king_square. apply find_ext. intros s.
  destruct (H s) as [E|[k [k' [E [E' [Hk Hk']]]]]]; [now rewrite E|]. rewrite E, E'.
  destruct k, k'; try reflexivity; congruence.
Qed.

Lemma sim_attacked c b b' t : sim c b b' -> attacked b (other c) t = attacked b' (other c) t.
Proof.
  intros Hs. pose proof (sim_occupied _ _ _ Hs) as Ho. destruct Hs as [_ H].
  unfold attacked. apply existsb_ext. intros s.
  destruct (H s) as [E|[k [k' [E [E' _]]]]].
  - rewrite E. destruct (at_ b' s) as [[c' k']|]; [|reflexivity].
    now rewrite (attacks_from_ext (occupied b) (occupied b') c' k' s Ho).
  - rewrite E, E'. now rewrite color_eqb_other.
Qed.

Lemma sim_in_check c b b' : sim c b b' -> in_check b c = in_check b' c.
Proof.
  intros Hs. unfold in_check. rewrite (sim_king_square _ _ _ Hs).
  destruct (king_square b' c); [|reflexivity]. now apply sim_attacked.
Qed.

(** legality does not depend on the promotion piece *)
Lemma legal_b_promo_indep p c s t k k' : k <> K -> k' <> K ->
  legal_b p c (mkSmove s t (Some k)) = legal_b p c (mkSmove s t (Some k')).
Proof.
  intros Hk Hk'. unfold legal_b. apply (f_equal negb). apply sim_in_check.
  unfold apply_move. cbn [sfrom sto spromo].
  destruct (at_ (brd p) s) as [[c0 k0]|]; [|apply sim_refl].
  cbn [brd].
  assert (E1 : is_ep_move p (mkSmove s t (Some k)) = is_ep_move p (mkSmove s t (Some k'))) by reflexivity.
  assert (E2 : is_castling_move (brd p) (mkSmove s t (Some k)) = is_castling_move (brd p) (mkSmove s t (Some k'))) by reflexivity.
  rewrite E1, E2.
  pose proof (sim_place c (set_cell (brd p) s None) t k k' Hk Hk') as S1.
  destruct (is_ep_move p (mkSmove s t (Some k'))); destruct (is_castling_move (brd p) (mkSmove s t (Some k')));
    try destruct (file_of t <? file_of s)%Z; repeat apply sim_set_cell; exact S1.
Qed.

(* ------------------------------------------------------------------ *)
(** * every promotion candidate has its queen sibling *)

Lemma pawn_moves_to_sibling c s0 t0 s t k :
  In (mkSmove s t (Some k)) (pawn_moves_to c s0 t0) ->
  In k promo_kinds /\ In (mkSmove s t (Some Q)) (pawn_moves_to c s0 t0).
Proof.
  unfold pawn_moves_to. destruct (rank_of t0 =? last_rank c)%Z.
  - intros H. apply in_map_iff in H as [k0 [E Hk0]]. injection E as -> -> ->.
    split; [exact Hk0|]. apply in_map_iff. exists Q. split; [reflexivity|]. cbn. now left.
  - intros [H|[]]. discriminate.
Qed.

Lemma piece_moves_sibling p c k0 s0 s t k :
  In (mkSmove s t (Some k)) (piece_moves p c k0 s0) ->
  In k promo_kinds /\ In (mkSmove s t (Some Q)) (piece_moves p c k0 s0).
Proof.
  assert (Hmap : forall l, In (mkSmove s t (Some k)) (map (fun t => mkSmove s0 t None) l) -> False).
  { intros l H. apply in_map_iff in H as [x [E _]]. discriminate. }
  destruct k0; cbn [piece_moves]; try (intros H; now apply Hmap in H).
  intros H. apply in_app_or in H as [H|H]; [|apply in_app_or in H as [H|H]].
  - destruct (on_board (file_of s0) (rank_of s0 + pawn_dir c) &&
              negb (occupied (brd p) (sq_of (file_of s0) (rank_of s0 + pawn_dir c)))); [|destruct H].
    apply pawn_moves_to_sibling in H as [H1 H2]. split; [exact H1|]. apply in_or_app. now left.
  - destruct ((rank_of s0 =? start_rank c)%Z && negb (occupied (brd p) (sq_of (file_of s0) (rank_of s0 + pawn_dir c))) &&
              negb (occupied (brd p) (sq_of (file_of s0) (rank_of s0 + 2 * pawn_dir c)))); [|destruct H].
    destruct H as [H|[]]. discriminate.
  - apply in_flat_map in H as [x [Hx H]].
    assert (G : In k promo_kinds /\ In (mkSmove s t (Some Q))
              (if is_color (brd p) (other c) x then pawn_moves_to c s0 x
               else match eps p with Some e => if Nat.eqb e x then [mkSmove s0 x None] else [] | None => [] end)).
    { destruct (is_color (brd p) (other c) x).
      - now apply pawn_moves_to_sibling in H.
      - destruct (eps p) as [e|]; [|destruct H]. destruct (Nat.eqb e x); [|destruct H].
        destruct H as [H|[]]. discriminate. }
    destruct G as [G1 G2]. split; [exact G1|]. apply in_or_app. right. apply in_or_app. right.
    apply in_flat_map. exists x. split; [exact Hx|exact G2].
Qed.

Lemma castle_moves_no_promo p c s t k : ~ In (mkSmove s t (Some k)) (castle_moves p c).
Proof.
  unfold castle_moves. intros H.
  destruct c; apply in_app_or in H as [H|H];
  match type of H with In _ (if ?x then _ else _) => destruct x end;
  try destruct H as [H|[]]; try discriminate; try destruct H.
Qed.

Lemma candidates_sibling p c s t k :
  In (mkSmove s t (Some k)) (candidates p c) ->
  In k promo_kinds /\ In (mkSmove s t (Some Q)) (candidates p c).
Proof.
  unfold candidates. intros H. apply in_app_or in H as [H|H]; [|now apply castle_moves_no_promo in H].
  apply in_flat_map in H as [x [Hx H]].
  destruct (at_ (brd p) x) as [[c' k0]|] eqn:E; [|destruct H].
  destruct (color_eqb c c') eqn:Ec; [|destruct H].
  apply piece_moves_sibling in H as [H1 H2]. split; [exact H1|].
  apply in_or_app. left. apply in_flat_map. exists x. split; [exact Hx|]. now rewrite E, Ec.
Qed.

Theorem spec_legal_queen_sibling p c s t k :
  In (mkSmove s t (Some k)) (spec_legal p c) -> In (mkSmove s t (Some Q)) (spec_legal p c).
Proof.
  unfold spec_legal. intros H. apply filter_In in H as [Hc Hl].
  apply candidates_sibling in Hc as [Hk Hc]. apply filter_In. split; [exact Hc|].
  rewrite <- Hl. apply legal_b_promo_indep; [discriminate|].
  cbn in Hk. intros ->. intuition discriminate.
Qed.

(* ------------------------------------------------------------------ *)
(** * transfer to the model *)

Lemma kind_of_queen x : kind_of x = Some Q -> x = Queen.
Proof.
  unfold kind_of.
  destruct (N.eqb_spec x Pawn); [discriminate|]. destruct (N.eqb_spec x Bishop); [discriminate|].
  destruct (N.eqb_spec x Knight); [discriminate|]. destruct (N.eqb_spec x Rook); [discriminate|].
  destruct (N.eqb_spec x Queen); [auto|]. destruct (N.eqb_spec x King); discriminate.
Qed.

Lemma promo_kind_valid p turn m : wf_b p turn = true -> In m (legal_moves p turn) -> is_promotion m = true ->
  exists k, kind_of (mpromo m) = Some k.
Proof.
  intros Hwf Hin Hp. unfold legal_moves in Hin. apply filter_In in Hin as [Hin _].
  pose proof (MoveRefines4.pseudo_shape p turn m Hwf Hin) as Hsh.
  unfold is_promotion in Hp.
  destruct (MoveRefines1.sh_kind _ _ _ Hsh) as [Hty|Hty|Hty|Hty|Hty _ _ _ _ Ho|Hty _ _ _ _ _ Ho|Hty|Hty|Hty];
    rewrite Hty in Hp; try discriminate;
    destruct Ho as [ -> | [ -> | [ -> | -> ] ] ]; eexists; reflexivity.
Qed.

Theorem queen_sibling_legal p turn m : wf_b p turn = true -> (turn = 0 \/ turn = 1)%N ->
  In m (legal_moves p turn) -> is_promotion m = true ->
  exists m', In m' (legal_moves p turn) /\ mfrom m' = mfrom m /\ mto m' = mto m /\
             is_promotion m' = true /\ mpromo m' = Queen.
Proof.
  intros Hwf Hc Hin Hp. destruct (legal_moves_fide p turn Hwf Hc) as [Hiff _].
  assert (H1 : In (abs_move m) (spec_legal (abs_pos p) (color_of turn))).
  { apply Hiff. now apply in_map. }
  unfold abs_move in H1. rewrite Hp in H1.
  destruct (promo_kind_valid p turn m Hwf Hin Hp) as [k Ek]. rewrite Ek in H1.
  apply spec_legal_queen_sibling in H1. apply Hiff in H1. apply in_map_iff in H1 as [m' [E Hm']].
  unfold abs_move in E. injection E as E1 E2 E3.
  exists m'. split; [exact Hm'|]. split; [lia|]. split; [lia|].
  destruct (is_promotion m'); [|discriminate]. split; [reflexivity|]. now apply kind_of_queen.
Qed.

(** C20 (1): the no-under-promotion filter selects a legal move whenever one exists *)
Theorem underpromo_filter_nonstarving p turn : wf_b p turn = true -> (turn = 0 \/ turn = 1)%N ->
  legal_moves p turn <> [] -> filter is_not_underpromotion (legal_moves p turn) <> [].
Proof.
  intros Hwf Hc Hne. destruct (legal_moves p turn) as [|m l] eqn:El; [congruence|].
  assert (Hin : In m (legal_moves p turn)) by (rewrite El; now left).
  rewrite <- El.
  assert (G : exists x, In x (filter is_not_underpromotion (legal_moves p turn))).
  { destruct (is_underpromotion m) eqn:Eu.
    - unfold is_underpromotion in Eu. apply andb_true_iff in Eu as [Hp _].
      destruct (queen_sibling_legal p turn m Hwf Hc Hin Hp) as [m' [Hm' [_ [_ [_ Hq]]]]].
      exists m'. apply filter_In. split; [exact Hm'|].
      unfold is_not_underpromotion, is_underpromotion. rewrite Hq. now rewrite andb_false_r.
    - exists m. apply filter_In. split; [exact Hin|]. unfold is_not_underpromotion. now rewrite Eu. }
  destruct G as [x Hx]. intros E. rewrite E in Hx. destruct Hx.
Qed.

(** the filter only selects legal moves, each once *)
Theorem underpromo_filter_sound p turn m :
  In m (filter is_not_underpromotion (legal_moves p turn)) -> In m (legal_moves p turn) /\ is_underpromotion m = false.
Proof. intros H. apply filter_In in H as [H1 H2]. split; [exact H1|]. now apply negb_true_iff in H2. Qed.

Lemma legal_moves_nodup p turn : NoDup (legal_moves p turn).
Proof. unfold legal_moves. apply NoDup_filter. apply MoveGen8.pseudo_legal_nodup. Qed.

Theorem sargon_explored_ok p turn : wf_b p turn = true -> (turn = 0 \/ turn = 1)%N ->
  incl (sargon_explored p turn) (legal_moves p turn) /\ NoDup (sargon_explored p turn) /\
  (legal_moves p turn <> [] -> sargon_explored p turn <> []).
Proof.
  intros Hwf Hc. unfold sargon_explored, explored. split; [|split].
  - intros m H. now apply filter_In in H.
  - apply NoDup_filter, legal_moves_nodup.
  - now apply underpromo_filter_nonstarving.
Qed.

Print Assumptions spec_legal_queen_sibling.
Print Assumptions underpromo_filter_nonstarving.
Print Assumptions sargon_explored_ok.
