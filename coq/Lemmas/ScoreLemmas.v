(** Order theory of scores (C09) on the model of Model/Score.v. *)
From Coq Require Import ZArith Bool Lia.
From Morlock.Model Require Import Score.
Open Scope Z_scope.

Definition rank_ltP (a b : Z * Z) : Prop := fst a < fst b \/ (fst a = fst b /\ snd a < snd b).
Lemma rank_lt_iff a b : rank_lt a b = true <-> rank_ltP a b.
Proof. unfold rank_lt, rank_ltP. rewrite orb_true_iff, andb_true_iff, !Z.ltb_lt, Z.eqb_eq. tauto. Qed.

Lemma f_key_eq_iff a b : f_isnan a = false -> f_isnan b = false -> 0 <= a < 2 * two31 -> 0 <= b < 2 * two31 ->
  (f_eq a b = true <-> f_key a = f_key b).
Proof. intros Ha Hb _ _. unfold f_eq. rewrite Ha, Hb. cbn [negb andb]. apply Z.eqb_eq. Qed.

Lemma f_key_neg b : 0 <= b < 2 * two31 -> f_key (f_neg b) = - f_key b.
Proof.
  intros Hb. unfold f_key, f_neg, f_sign, f_mag, two31 in *.
  destruct (2147483648 <=? b) eqn:E.
  - apply Z.leb_le in E.
    assert (E2 : 2147483648 <=? b - 2147483648 = false) by (apply Z.leb_gt; lia). rewrite E2.
    rewrite (Z.mod_small (b - 2147483648)) by lia.
    replace b with ((b - 2147483648) + 1 * 2147483648) at 2 by lia.
    rewrite Z.mod_add by lia. rewrite Z.mod_small by lia. lia.
  - apply Z.leb_gt in E.
    assert (E2 : 2147483648 <=? b + 2147483648 = true) by (apply Z.leb_le; lia). rewrite E2.
    replace (b + 2147483648) with (b + 1 * 2147483648) by lia.
    rewrite Z.mod_add by lia. reflexivity.
Qed.

Lemma f_isnan_neg b : 0 <= b < 2 * two31 -> f_isnan (f_neg b) = f_isnan b.
Proof.
  intros Hb. unfold f_isnan, f_neg, f_sign, f_mag, two31 in *.
  destruct (2147483648 <=? b) eqn:E.
  - apply Z.leb_le in E. replace b with ((b - 2147483648) + 1 * 2147483648) at 2 by lia.
    rewrite Z.mod_add by lia. reflexivity.
  - replace (b + 2147483648) with (b + 1 * 2147483648) by lia. rewrite Z.mod_add by lia. reflexivity.
Qed.

Lemma f_neg_range b : 0 <= b < 2 * two31 -> 0 <= f_neg b < 2 * two31.
Proof. unfold f_neg, f_sign, two31. intros. destruct (2147483648 <=? b) eqn:E; [apply Z.leb_le in E|apply Z.leb_gt in E]; lia. Qed.

Lemma f_neg_invol b : 0 <= b < 2 * two31 -> f_neg (f_neg b) = b.
Proof.
  unfold f_neg, f_sign, two31. intros Hb. destruct (2147483648 <=? b) eqn:E.
  - apply Z.leb_le in E. assert (E2 : 2147483648 <=? b - 2147483648 = false) by (apply Z.leb_gt; lia). rewrite E2. lia.
  - apply Z.leb_gt in E. assert (E2 : 2147483648 <=? b + 2147483648 = true) by (apply Z.leb_le; lia). rewrite E2. lia.
Qed.


(** * Case analysis of valid scores *)
Lemma valid_cases s : valid s = true ->
  s = neginf_score \/ s = inf_score \/
  (exists m, s = mate_in m /\ m <> 0 /\ -127 <= m <= 127) \/
  (exists b, s = heuristic b /\ f_isnan b = false /\ 0 <= b < 2 * two31).
Proof.
  destruct s as [t m b]. unfold valid; cbn [sty smate sbits]. destruct t; intros H; try discriminate H.
  - right; right; right. exists b.
    rewrite !andb_true_iff, negb_true_iff, Z.eqb_eq, Z.leb_le, Z.ltb_lt in H.
    destruct H as [[[-> Hn] H0] H1]. unfold heuristic. auto.
  - right; right; left. exists m.
    rewrite !andb_true_iff, negb_true_iff, Z.eqb_neq, Z.eqb_eq, !Z.leb_le in H.
    destruct H as [[[Hn H0] H1] ->]. unfold mate_in. auto.
  - right; left. rewrite andb_true_iff, !Z.eqb_eq in H. destruct H as [-> ->]. reflexivity.
  - left. rewrite andb_true_iff, !Z.eqb_eq in H. destruct H as [-> ->]. reflexivity.
Qed.

Lemma valid_mate m : m <> 0 -> -127 <= m <= 127 -> valid (mate_in m) = true.
Proof. intros. unfold valid, mate_in; cbn [sty smate sbits].
  rewrite !andb_true_iff, negb_true_iff, Z.eqb_neq, Z.eqb_eq, !Z.leb_le. repeat split; lia. Qed.
Lemma valid_heur b : f_isnan b = false -> 0 <= b < 2 * two31 -> valid (heuristic b) = true.
Proof. intros Hn Hb. unfold valid, heuristic; cbn [sty smate sbits]. rewrite Hn.
  rewrite !andb_true_iff, Z.eqb_eq, Z.leb_le, Z.ltb_lt. repeat split; lia. Qed.

Lemma rank_mate m : rank (mate_in m) = if m <? 0 then (1, - m) else (3, - m).
Proof. reflexivity. Qed.
Lemma rank_heur b : rank (heuristic b) = (2, f_key b).
Proof. reflexivity. Qed.

Lemma wrap8_small z : -128 <= z <= 127 -> wrap8 z = z.
Proof. intros. unfold wrap8. rewrite Z.mod_small by lia. lia. Qed.

Ltac sign m := let E := fresh "E" in destruct (m <? 0) eqn:E; [apply Z.ltb_lt in E|apply Z.ltb_ge in E].

Ltac bool2prop :=
  apply eq_true_iff_eq;
  repeat rewrite ?orb_true_iff, ?andb_true_iff, ?negb_true_iff, ?Z.ltb_lt, ?Z.leb_le, ?Z.eqb_eq;
  intuition (try discriminate; try lia).

Ltac solve_case :=
  try change (f_eq 0 0) with true;
  unfold f_eq, f_lt;
  repeat match goal with H : f_isnan _ = false |- _ => rewrite H end;
  cbn [negb andb orb];
  repeat match goal with |- context [?m <? 0] => is_var m; sign m end;
  cbn [fst snd Bool.eqb andb orb negb];
  rewrite ?andb_true_r, ?orb_false_r; cbn [Z.eqb andb];
  repeat match goal with |- context [if (?a =? ?b) then _ else _] =>
    let E := fresh "E" in destruct (a =? b) eqn:E; [apply Z.eqb_eq in E|apply Z.eqb_neq in E] end;
  bool2prop.

Ltac ltb_cases :=
  repeat match goal with
  | |- context [?a <? ?b] => let E := fresh "E" in destruct (a <? b) eqn:E; [apply Z.ltb_lt in E|apply Z.ltb_ge in E]
  | |- context [?a =? ?b] => let E := fresh "E" in destruct (a =? b) eqn:E; [apply Z.eqb_eq in E|apply Z.eqb_neq in E]
  end.

(** * The order is the lexicographic order of [rank]. *)
Theorem less_rank a b : valid a = true -> valid b = true -> less a b = rank_lt (rank a) (rank b).
Proof.
  intros Ha Hb.
  destruct (valid_cases a Ha) as [->|[->|[[ma [-> [Hma Hra]]]|[ba [-> [Hna Hrba]]]]]];
  destruct (valid_cases b Hb) as [->|[->|[[mb [-> [Hmb Hrb]]]|[bb [-> [Hnb Hrbb]]]]]];
    try reflexivity;
    unfold less, go_eq, rank_lt; rewrite ?rank_mate, ?rank_heur;
    cbn [sty smate sbits stype_eqb andb orb fst snd mate_in heuristic inf_score neginf_score rank].
  all: solve_case.
Qed.

Lemma rank_eq_iff a b : valid a = true -> valid b = true -> (rank a = rank b <-> go_eq a b = true).
Proof.
  intros Ha Hb.
  destruct (valid_cases a Ha) as [->|[->|[[ma [-> [Hma Hra]]]|[ba [-> [Hna Hrba]]]]]];
  destruct (valid_cases b Hb) as [->|[->|[[mb [-> [Hmb Hrb]]]|[bb [-> [Hnb Hrbb]]]]]];
    unfold go_eq; rewrite ?rank_mate, ?rank_heur;
    cbn [sty smate sbits stype_eqb andb orb fst snd mate_in heuristic inf_score neginf_score rank];
    try (split; reflexivity);
    try (split; intros E; discriminate E);
    try (destruct (ma <? 0); split; intros E; discriminate E);
    try (destruct (mb <? 0); split; intros E; discriminate E).
  - replace (f_eq 0 0) with true by reflexivity. rewrite andb_true_r, Z.eqb_eq.
    destruct (ma <? 0) eqn:Ea, (mb <? 0) eqn:Eb;
      try apply Z.ltb_lt in Ea; try apply Z.ltb_ge in Ea; try apply Z.ltb_lt in Eb; try apply Z.ltb_ge in Eb;
      (split; [intros E; injection E; lia | intros ->; try reflexivity; lia]).
  - unfold f_eq. rewrite Hna, Hnb. cbn [negb andb Z.eqb]. rewrite Z.eqb_eq. split; [intros E; injection E; auto|intros ->; reflexivity].
Qed.

Theorem less_irrefl a : valid a = true -> less a a = false.
Proof. intros Ha. rewrite less_rank by assumption. apply not_true_iff_false. rewrite rank_lt_iff. unfold rank_ltP. lia. Qed.

Theorem less_trans a b c : valid a = true -> valid b = true -> valid c = true ->
  less a b = true -> less b c = true -> less a c = true.
Proof. intros Ha Hb Hc. rewrite !less_rank by assumption. rewrite !rank_lt_iff. unfold rank_ltP. lia. Qed.

Theorem less_asym a b : valid a = true -> valid b = true -> less a b = true -> less b a = false.
Proof. intros Ha Hb. rewrite !less_rank by assumption. intros H. apply not_true_iff_false. revert H.
  rewrite !rank_lt_iff. unfold rank_ltP. lia. Qed.

(** Totality: exactly one of a < b, a == b (Go's ==), b < a. *)
Theorem less_trichotomy a b : valid a = true -> valid b = true ->
  (less a b = true /\ go_eq a b = false /\ less b a = false) \/
  (less a b = false /\ go_eq a b = true /\ less b a = false) \/
  (less a b = false /\ go_eq a b = false /\ less b a = true).
Proof.
  intros Ha Hb. pose proof (rank_eq_iff a b Ha Hb) as He.
  rewrite !less_rank by assumption.
  assert (D : rank_ltP (rank a) (rank b) \/ rank a = rank b \/ rank_ltP (rank b) (rank a)).
  { unfold rank_ltP. destruct (rank a) as [x1 y1], (rank b) as [x2 y2]. cbn [fst snd].
    destruct (Z.lt_trichotomy x1 x2) as [?|[->|?]]; [left; lia| |right; right; lia].
    destruct (Z.lt_trichotomy y1 y2) as [?|[->|?]]; [left; lia|right; left; reflexivity|right; right; lia]. }
  destruct D as [D|[D|D]].
  - left. repeat split.
    + apply rank_lt_iff; assumption.
    + apply not_true_iff_false. intro X. apply He in X. unfold rank_ltP in D. rewrite X in D. lia.
    + apply not_true_iff_false. rewrite rank_lt_iff. unfold rank_ltP in *. lia.
  - right; left. repeat split.
    + apply not_true_iff_false. rewrite rank_lt_iff. rewrite D. unfold rank_ltP. lia.
    + apply He; assumption.
    + apply not_true_iff_false. rewrite rank_lt_iff. rewrite D. unfold rank_ltP. lia.
  - right; right. repeat split.
    + apply not_true_iff_false. rewrite rank_lt_iff. unfold rank_ltP in *. lia.
    + apply not_true_iff_false. intro X. apply He in X. unfold rank_ltP in D. rewrite X in D. lia.
    + apply rank_lt_iff; assumption.
Qed.

(** * Negation *)
Lemma negate_mate m : -127 <= m <= 127 -> negate (mate_in m) = mate_in (- m).
Proof. intros. unfold negate, mate_in; cbn [sty smate]. rewrite wrap8_small by lia. reflexivity. Qed.

Lemma valid_negate a : valid a = true -> valid (negate a) = true.
Proof.
  intros Ha. destruct (valid_cases a Ha) as [->|[->|[[ma [-> [Hma Hra]]]|[ba [-> [Hna Hrba]]]]]]; try reflexivity.
  - rewrite negate_mate by lia. apply valid_mate; lia.
  - unfold negate; cbn [sty sbits heuristic]. apply valid_heur.
    + rewrite f_isnan_neg by assumption. assumption.
    + apply f_neg_range; assumption.
Qed.

Theorem negate_involutive a : valid a = true -> negate (negate a) = a.
Proof.
  intros Ha. destruct (valid_cases a Ha) as [->|[->|[[ma [-> [Hma Hra]]]|[ba [-> [Hna Hrba]]]]]]; try reflexivity.
  - rewrite !negate_mate by lia. f_equal. lia.
  - unfold negate; cbn [sty sbits heuristic]. unfold heuristic. rewrite f_neg_invol by assumption. reflexivity.
Qed.

Definition rank_opp (r : Z * Z) : Z * Z := (4 - fst r, - snd r).
Lemma rank_negate a : valid a = true -> rank (negate a) = rank_opp (rank a).
Proof.
  intros Ha. destruct (valid_cases a Ha) as [->|[->|[[ma [-> [Hma Hra]]]|[ba [-> [Hna Hrba]]]]]]; try reflexivity.
  - rewrite negate_mate by lia. rewrite !rank_mate. unfold rank_opp.
    destruct (ma <? 0) eqn:E1, (- ma <? 0) eqn:E2; cbn [fst snd];
      try apply Z.ltb_lt in E1; try apply Z.ltb_ge in E1; try apply Z.ltb_lt in E2; try apply Z.ltb_ge in E2;
      try (exfalso; lia); f_equal; lia.
  - unfold negate; cbn [sty sbits heuristic]. rewrite !rank_heur. unfold rank_opp; cbn [fst snd].
    rewrite f_key_neg by assumption. reflexivity.
Qed.

(** a < b exactly when -b < -a *)
Theorem negate_reverses a b : valid a = true -> valid b = true -> less (negate b) (negate a) = less a b.
Proof.
  intros Ha Hb. rewrite !less_rank by (auto using valid_negate).
  rewrite !rank_negate by assumption.
  apply eq_true_iff_eq. rewrite !rank_lt_iff. unfold rank_ltP, rank_opp. cbn [fst snd]. lia.
Qed.

(** * Mate distance *)
Definition inc_ok (s : score) : bool := (-126 <=? smate s) && (smate s <=? 126).
Lemma inc_ok_mate m : inc_ok (mate_in m) = true -> -126 <= m <= 126.
Proof. unfold inc_ok; cbn [smate mate_in]. rewrite andb_true_iff, !Z.leb_le. auto. Qed.

Lemma inc_mate m : -126 <= m <= 126 -> inc (mate_in m) = mate_in (if m <? 0 then m - 1 else m + 1).
Proof. intros. unfold inc, mate_in; cbn [sty smate].
  destruct (m <? 0); rewrite wrap8_small by lia; reflexivity. Qed.

Lemma valid_inc a : valid a = true -> inc_ok a = true -> valid (inc a) = true.
Proof.
  intros Ha Hi. destruct (valid_cases a Ha) as [->|[->|[[ma [-> [Hma Hra]]]|[ba [-> [Hna Hrba]]]]]]; try reflexivity.
  - apply inc_ok_mate in Hi. rewrite inc_mate by assumption.
    destruct (ma <? 0) eqn:E; [apply Z.ltb_lt in E|apply Z.ltb_ge in E]; apply valid_mate; lia.
  - unfold inc; cbn [sty heuristic]. apply valid_heur; assumption.
Qed.

Definition rank_inc (r : Z * Z) : Z * Z :=
  if fst r =? 0 then (1, 1) else if fst r =? 1 then (1, snd r + 1)
  else if fst r =? 3 then (3, snd r - 1) else if fst r =? 4 then (3, -1) else r.

Lemma rank_inc_spec a : valid a = true -> inc_ok a = true -> rank (inc a) = rank_inc (rank a).
Proof.
  intros Ha Hi. destruct (valid_cases a Ha) as [->|[->|[[ma [-> [Hma Hra]]]|[ba [-> [Hna Hrba]]]]]]; try reflexivity.
  apply inc_ok_mate in Hi. rewrite inc_mate by assumption. rewrite !rank_mate. unfold rank_inc.
  destruct (ma <? 0) eqn:E; [apply Z.ltb_lt in E|apply Z.ltb_ge in E]; cbn [fst snd Z.eqb Pos.eqb].
  - assert (E2 : ma - 1 <? 0 = true) by (apply Z.ltb_lt; lia). rewrite E2. f_equal. lia.
  - assert (E2 : ma + 1 <? 0 = false) by (apply Z.ltb_ge; lia). rewrite E2. f_equal. lia.
Qed.

Lemma rank_shape a : valid a = true ->
  (fst (rank a) = 0 /\ snd (rank a) = 0) \/ (fst (rank a) = 1 /\ 1 <= snd (rank a)) \/ fst (rank a) = 2 \/
  (fst (rank a) = 3 /\ snd (rank a) <= -1) \/ (fst (rank a) = 4 /\ snd (rank a) = 0).
Proof.
  intros Ha. destruct (valid_cases a Ha) as [->|[->|[[ma [-> [Hma Hra]]]|[ba [-> [Hna Hrba]]]]]].
  - left; split; reflexivity.
  - right; right; right; right; split; reflexivity.
  - rewrite rank_mate. destruct (ma <? 0) eqn:E; [apply Z.ltb_lt in E|apply Z.ltb_ge in E]; cbn [fst snd].
    + right; left; lia.
    + right; right; right; left; lia.
  - right; right; left; reflexivity.
Qed.

(** adding a ply of mate distance never changes the relative order of two scores *)
Theorem inc_monotone a b : valid a = true -> valid b = true -> inc_ok a = true -> inc_ok b = true ->
  less (inc a) (inc b) = less a b.
Proof.
  intros Ha Hb Hia Hib. rewrite !less_rank by (auto using valid_inc).
  rewrite !rank_inc_spec by assumption.
  pose proof (rank_shape a Ha) as Sa. pose proof (rank_shape b Hb) as Sb.
  apply eq_true_iff_eq. rewrite !rank_lt_iff. unfold rank_ltP, rank_inc.
  destruct (rank a) as [x1 y1], (rank b) as [x2 y2]. cbn [fst snd] in *.
  destruct Sa as [[-> ->]|[[-> ?]|[->|[[-> ?]|[-> ->]]]]]; destruct Sb as [[-> ->]|[[-> ?]|[->|[[-> ?]|[-> ->]]]]];
    cbn [Z.eqb Pos.eqb fst snd]; lia.
Qed.

(** dec inverts inc *)
Theorem dec_inc a : valid a = true -> inc_ok a = true -> dec (inc a) = a.
Proof.
  intros Ha Hi. destruct (valid_cases a Ha) as [->|[->|[[ma [-> [Hma Hra]]]|[ba [-> [Hna Hrba]]]]]]; try reflexivity.
  apply inc_ok_mate in Hi. rewrite inc_mate by assumption. unfold dec, mate_in; cbn [sty smate].
  destruct (ma <? 0) eqn:E; [apply Z.ltb_lt in E|apply Z.ltb_ge in E].
  - assert (E1 : ma - 1 =? 1 = false) by (apply Z.eqb_neq; lia).
    assert (E2 : ma - 1 =? -1 = false) by (apply Z.eqb_neq; lia).
    assert (E3 : ma - 1 <? 0 = true) by (apply Z.ltb_lt; lia). rewrite E1, E2, E3.
    rewrite wrap8_small by lia. f_equal. lia.
  - assert (E1 : ma + 1 =? 1 = false) by (apply Z.eqb_neq; lia).
    assert (E2 : ma + 1 =? -1 = false) by (apply Z.eqb_neq; lia).
    assert (E3 : ma + 1 <? 0 = false) by (apply Z.ltb_ge; lia). rewrite E1, E2, E3.
    rewrite wrap8_small by lia. f_equal. lia.
Qed.

(** * Max / Min agree with the order *)
Theorem max_spec a b : (less a b = true -> smax a b = b) /\ (less a b = false -> smax a b = a).
Proof. unfold smax. destruct (less a b); split; intros; congruence. Qed.
Theorem min_spec a b : (less a b = true -> smin a b = a) /\ (less a b = false -> smin a b = b).
Proof. unfold smin. destruct (less a b); split; intros; congruence. Qed.
Theorem max_upper a b : valid a = true -> valid b = true -> less (smax a b) a = false /\ less (smax a b) b = false.
Proof. intros Ha Hb. unfold smax. destruct (less a b) eqn:E.
  - split; [apply less_asym; assumption|apply less_irrefl; assumption].
  - split; [apply less_irrefl; assumption|assumption]. Qed.
Theorem min_lower a b : valid a = true -> valid b = true -> less a (smin a b) = false /\ less b (smin a b) = false.
Proof. intros Ha Hb. unfold smin. destruct (less a b) eqn:E.
  - split; [apply less_irrefl; assumption|apply less_asym; assumption].
  - split; [assumption|apply less_irrefl; assumption]. Qed.

(** * The chain of the property statement *)
Theorem less_chain :
  forall (j k : Z) (x y : Z),
    1 <= j -> j < k -> k <= 127 ->
    valid (heuristic x) = true -> valid (heuristic y) = true -> f_lt x y = true ->
    less neginf_score (mate_in (-j)) = true /\
    less (mate_in (-j)) (mate_in (-k)) = true /\          (* mated sooner < mated later *)
    less (mate_in (-k)) (heuristic x) = true /\
    less (heuristic x) (heuristic y) = true /\            (* numerically ordered *)
    less (heuristic y) (mate_in k) = true /\
    less (mate_in k) (mate_in j) = true /\                (* mating later < mating sooner *)
    less (mate_in j) inf_score = true.
Proof.
  intros j k x y Hj Hjk Hk Hx Hy Hlt.
  assert (Vj : valid (mate_in j) = true) by (apply valid_mate; lia).
  assert (Vk : valid (mate_in k) = true) by (apply valid_mate; lia).
  assert (Vnj : valid (mate_in (-j)) = true) by (apply valid_mate; lia).
  assert (Vnk : valid (mate_in (-k)) = true) by (apply valid_mate; lia).
  assert (Vi : valid inf_score = true) by reflexivity.
  assert (Vn : valid neginf_score = true) by reflexivity.
  rewrite !less_rank by assumption. rewrite !rank_lt_iff. unfold rank_ltP. rewrite !rank_mate, !rank_heur.
  assert (E1 : - j <? 0 = true) by (apply Z.ltb_lt; lia).
  assert (E2 : - k <? 0 = true) by (apply Z.ltb_lt; lia).
  assert (E3 : j <? 0 = false) by (apply Z.ltb_ge; lia).
  assert (E4 : k <? 0 = false) by (apply Z.ltb_ge; lia).
  rewrite E1, E2, E3, E4. cbn [fst snd rank neginf_score inf_score sty].
  unfold f_lt in Hlt. apply andb_true_iff in Hlt. destruct Hlt as [_ Hlt]. apply Z.ltb_lt in Hlt.
  repeat split; lia.
Qed.
