(** MirrorMobility — C20: BERNSTEIN's mobility term (number of legal moves of a colour) under the colour mirror.
    Summary of MirrorMobility1..6.

    [mirror_mobility_statement] of EnginesLemmas9 (hypotheses: [Inv], one king of the colour) is FALSE: [Inv] only
    bounds the en-passant field, and the mirror sends square 56 (h8) to 0 = "no en-passant square"
    ([mirror_mobility_statement_false], witness [ep56_pos]).  Excluding 56 alone does not repair it ([ep57_facts]):
    [ep_capture] is colour-symmetric only for targets on ranks 3 and 6.  With that side condition ([ep_rank_ok], which
    every legal position [wf_b] satisfies) the statement holds for BOTH colours, and BERNSTEIN's evaluation is
    colour-blind in every legal position without any remaining hypothesis.

    Route: bit level.  1: attack / pawn boards of an arbitrary occupancy commute with [flip_bb].  2: a weak
    invariant [Wk] (word sizes, rotated boards) that survives every [pos_xor]; [pos_xor], [is_attacked_by],
    [is_checked] commute with [mirror_pos] under [Wk].  3: [pos_move] accepts the mirrored move iff it accepts the
    move.  4: the generator's output for the mirrored position is a permutation of the mirrored output.  5: every
    generated move has the shape needed in 3.  6: counts, counterexamples, BERNSTEIN. *)
From Coq Require Import NArith ZArith List Bool Permutation.
From Morlock.Model Require Import Bits Attacks Move Position Abs Search Fen Engines.
From Morlock.Lemmas Require Import PositionLemmas EnginesLemmas8 EnginesLemmas9.
From Morlock.Lemmas Require Export MirrorMobility1 MirrorMobility2 MirrorMobility3 MirrorMobility4 MirrorMobility5 MirrorMobility6.
Import ListNotations.
Open Scope N_scope.

Module Statements.
  (** the legality test commutes with the mirror (for moves of the generator's shape) *)
  Theorem pos_move_mirror : forall p c m, Inv p -> (c = 0 \/ c = 1) -> popcount (pget p c King) = 1 -> shape p c m ->
    legalb (mirror_pos p) (mirror_move m) = legalb p m.
  Proof. exact MirrorMobility3.pos_move_mirror. Qed.

  (** the generator commutes with the mirror up to the emission order *)
  Theorem pseudo_legal_mirror : forall p c, Inv p -> (c = 0 \/ c = 1) -> popcount (pget p c King) = 1 -> enpassant p <> 56 ->
    Permutation (pseudo_legal_moves (mirror_pos p) (opponent c)) (map mirror_move (pseudo_legal_moves p c)).
  Proof. exact MirrorMobility4.pseudo_legal_mirror. Qed.

  Theorem legal_moves_mirror_perm : forall p c, Inv p -> (c = 0 \/ c = 1) -> popcount (pget p c King) = 1 -> ep_rank_ok p ->
    Permutation (legal_moves (mirror_pos p) (opponent c)) (map mirror_move (legal_moves p c)).
  Proof. exact MirrorMobility6.legal_moves_mirror_perm. Qed.

  (** mobility: the true form of [mirror_mobility_statement] *)
  Theorem mirror_mobility_ep : forall p c, Inv p -> (c = 0 \/ c = 1) -> popcount (pget p c King) = 1 -> ep_rank_ok p ->
    length (legal_moves (mirror_pos p) (opponent c)) = length (legal_moves p c).
  Proof. exact MirrorMobility6.mirror_mobility_ep. Qed.

  Theorem mirror_mobility_wf : forall p turn c, wf_b p turn = true -> (c = 0 \/ c = 1) ->
    length (legal_moves (mirror_pos p) (opponent c)) = length (legal_moves p c).
  Proof. exact MirrorMobility6.mirror_mobility_wf. Qed.

  (** ... and the form without the side condition is false *)
  Theorem mirror_mobility_statement_false : ~ mirror_mobility_statement.
  Proof. exact MirrorMobility6.mirror_mobility_statement_false. Qed.

  Theorem mirror_mobility_partial :
    (forall p c, Inv p -> (c = 0 \/ c = 1) -> popcount (pget p c King) = 1 -> ep_rank_ok p ->
       length (legal_moves (mirror_pos p) (opponent c)) = length (legal_moves p c)) /\
    (forall p turn c, wf_b p turn = true -> (c = 0 \/ c = 1) ->
       length (legal_moves (mirror_pos p) (opponent c)) = length (legal_moves p c)) /\
    ~ mirror_mobility_statement.
  Proof. exact MirrorMobility6.mirror_mobility_partial. Qed.

  (** BERNSTEIN *)
  Theorem bernstein_evaluate_colourblind : forall p factor turn c, wf_b p turn = true -> (c = 0 \/ c = 1) ->
    bern_evaluate (mirror_pos p) factor (opponent c) = bern_evaluate p factor c.
  Proof. exact MirrorMobility6.bernstein_evaluate_colourblind. Qed.

  Theorem bernstein_colourblind_full : forall p factor turn, wf_b p turn = true -> (turn = 0 \/ turn = 1) ->
    bern_eval (mirror_pos p) factor (opponent turn) = bern_eval p factor turn.
  Proof. exact MirrorMobility6.bernstein_colourblind_full. Qed.
End Statements.

Print Assumptions Statements.pos_move_mirror.
Print Assumptions Statements.pseudo_legal_mirror.
Print Assumptions Statements.legal_moves_mirror_perm.
Print Assumptions Statements.mirror_mobility_ep.
Print Assumptions Statements.mirror_mobility_wf.
Print Assumptions Statements.mirror_mobility_statement_false.
Print Assumptions Statements.mirror_mobility_partial.
Print Assumptions Statements.bernstein_evaluate_colourblind.
Print Assumptions Statements.bernstein_colourblind_full.
