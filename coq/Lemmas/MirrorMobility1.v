(** MirrorMobility1 — C20, mobility under the colour mirror, part 1: bit-level algebra of [flip_bb] and the
    attack / pawn boards of an ARBITRARY occupancy word under the mirror (no position invariant needed). *)
From Coq Require Import NArith ZArith List Bool Lia ZifyBool ZifyNat ZifyN Permutation.
From Morlock.Model Require Import Bits Attacks Move Position Abs Search Fen Engines.
From Morlock.Spec Require Import Chess.
From Morlock.Lemmas Require Import PositionLemmas AttackGeometry1 AttackGeometry2 AttackGeometry3 AttackGeometry_Extra
     MoveGen2 MoveGen4 EnginesLemmas5 EnginesLemmas6 EnginesLemmas7 EnginesLemmas8 EnginesLemmas9.
Import ListNotations.
Open Scope N_scope.

Ltac Zify.zify_post_hook ::= Z.div_mod_to_equations.

(* ------------------------------------------------------------------ *)
(** * more algebra of [flip_bb] *)

Lemma flip_bb_lxor a b : flip_bb (N.lxor a b) = N.lxor (flip_bb a) (flip_bb b).
Proof. apply N.bits_inj. intros i. rewrite N.lxor_spec, !tb_flip_bb, N.lxor_spec. destruct (i <? 64); reflexivity. Qed.

Lemma flip_bb_andnot a b : flip_bb (andnot a b) = andnot (flip_bb a) (flip_bb b).
Proof.
  apply N.bits_inj. intros i. rewrite MoveGen4.tb_andnot, !tb_flip_bb, MoveGen4.tb_andnot.
  destruct (i <? 64); [reflexivity|reflexivity].
Qed.

Lemma flip_bb_not64 a : flip_bb (not64 a) = not64 (flip_bb a).
Proof.
  apply N.bits_inj. intros i. rewrite MoveGen4.tb_not64, !tb_flip_bb, MoveGen4.tb_not64.
  destruct (N.ltb_spec i 64) as [Hi|Hi]; [|reflexivity]. pose proof (mirror_sq_lt i Hi) as Hm.
  destruct (N.ltb_spec (mirror_sq i) 64); [reflexivity|lia].
Qed.

Lemma land_word_l x y : x < 2 ^ 64 -> N.land x y < 2 ^ 64.
Proof.
  intros Hx. apply word_bits. intros i Hi. rewrite N.land_spec, (proj1 (word_bits x) Hx i Hi). reflexivity.
Qed.

Lemma land_word_r x y : y < 2 ^ 64 -> N.land x y < 2 ^ 64.
Proof. intros Hy. rewrite N.land_comm. now apply land_word_l. Qed.

Lemma flip_eqb0 z : z < 2 ^ 64 -> (flip_bb z =? 0) = (z =? 0).
Proof.
  intros Hz. destruct (N.eqb_spec z 0) as [->|Hn]; [reflexivity|].
  destruct (N.eqb_spec (flip_bb z) 0) as [E|E]; [|reflexivity]. exfalso. apply Hn. now apply flip_bb_eq0.
Qed.

(** intersection tests are invariant *)
Lemma land_flip_eqb0 a b : a < 2 ^ 64 -> (N.land (flip_bb a) (flip_bb b) =? 0) = (N.land a b =? 0).
Proof. intros Ha. rewrite <- flip_bb_land. apply flip_eqb0. now apply land_word_l. Qed.

Lemma mirror_sq_neq0 s : s < 64 -> s <> 56 -> mirror_sq s <> 0.
Proof. intros Hs Hn E. apply Hn. rewrite <- (mirror_sq_invol s), E. reflexivity. Qed.

(* ------------------------------------------------------------------ *)
(** * attack boards of a flipped occupancy *)

Lemma occ_of_flip x s : (s < 64)%nat -> occ_of (flip_bb x) (mirror_nat s) = occ_of x s.
Proof.
  intros Hs. unfold occ_of, mirror_nat. rewrite N2Nat.id.
  assert (Hs' : N.of_nat s < 64) by lia.
  rewrite (tb_flip_bb64 _ _ (mirror_sq_lt _ Hs')). now rewrite mirror_sq_invol.
Qed.

Lemma attacks_from_colour occ c c' k s : k <> P -> attacks_from occ c k s = attacks_from occ c' k s.
Proof. intros Hk. destruct k; try reflexivity. contradiction. Qed.

(** two boards with the geometric characterisation, one for the flipped occupancy and the mirrored square *)
Lemma geo_flip (B B' : N) occ occ' k sq : (forall x, (x < 64)%nat -> occ' (mirror_nat x) = occ x) -> sq < 64 -> k <> P ->
  (forall t, N.testbit B t = (t <? 64) && mem_nat (N.to_nat t) (attacks_from occ Wh k (N.to_nat sq))) ->
  (forall t, N.testbit B' t = (t <? 64) && mem_nat (N.to_nat t) (attacks_from occ' Wh k (N.to_nat (mirror_sq sq)))) ->
  B' = flip_bb B.
Proof.
  intros Hocc Hsq Hk HB HB'. apply N.bits_inj. intros i. rewrite HB', tb_flip_bb, HB.
  destruct (N.ltb_spec i 64) as [Hi|Hi]; [|reflexivity]. pose proof (mirror_sq_lt i Hi) as Hm.
  destruct (N.ltb_spec (mirror_sq i) 64); [|lia]. cbn [andb].
  rewrite (attacks_from_colour occ' Wh (other Wh) k _ Hk).
  replace (N.to_nat i) with (mirror_nat (N.to_nat (mirror_sq i))) by (rewrite mirror_nat_N, mirror_sq_invol; reflexivity).
  rewrite <- (mirror_nat_N sq).
  apply (attacks_from_mirror occ occ' Hocc Wh k (N.to_nat sq) (N.to_nat (mirror_sq i))). lia.
Qed.

Lemma knight_board_mirror_b :
  forallb (fun s => knight_attackboard (mirror_sq s) =? flip_bb (knight_attackboard s)) (seqN 64) = true.
Proof. vm_compute. reflexivity. Qed.

Lemma knight_board_mirror s : s < 64 -> knight_attackboard (mirror_sq s) = flip_bb (knight_attackboard s).
Proof.
  intros Hs. pose proof knight_board_mirror_b as H. rewrite forallb_forall in H.
  apply N.eqb_eq. apply H. now apply in_seqN64.
Qed.

Theorem rook_board_flip occ sq : sq < 64 ->
  rook_attackboard (new_rotated (flip_bb occ)) (mirror_sq sq) = flip_bb (rook_attackboard (new_rotated occ) sq).
Proof.
  intros Hs. apply (geo_flip _ _ (occ_of occ) (occ_of (flip_bb occ)) R sq (occ_of_flip occ) Hs); [discriminate| |].
  - intros t. now apply AttackGeometry2.rook_attack_geometric.
  - intros t. apply AttackGeometry2.rook_attack_geometric. now apply mirror_sq_lt.
Qed.

Theorem bishop_board_flip occ sq : sq < 64 ->
  bishop_attackboard (new_rotated (flip_bb occ)) (mirror_sq sq) = flip_bb (bishop_attackboard (new_rotated occ) sq).
Proof.
  intros Hs. apply (geo_flip _ _ (occ_of occ) (occ_of (flip_bb occ)) Bi sq (occ_of_flip occ) Hs); [discriminate| |].
  - intros t. now apply AttackGeometry2.bishop_attack_geometric.
  - intros t. apply AttackGeometry2.bishop_attack_geometric. now apply mirror_sq_lt.
Qed.

(** every attack board commutes with the mirror, for an arbitrary occupancy word *)
Theorem attackboard_flip occ sq k : sq < 64 ->
  attackboard (new_rotated (flip_bb occ)) (mirror_sq sq) k = flip_bb (attackboard (new_rotated occ) sq k).
Proof.
  intros Hs. unfold attackboard.
  destruct (k =? King); [exact (proj1 (king_board_mirror sq Hs))|].
  destruct (k =? Queen).
  { unfold queen_attackboard. now rewrite flip_bb_lor, rook_board_flip, bishop_board_flip. }
  destruct (k =? Rook); [now apply rook_board_flip|].
  destruct (k =? Bishop); [now apply bishop_board_flip|].
  destruct (k =? Knight); [now apply knight_board_mirror|reflexivity].
Qed.

(* ------------------------------------------------------------------ *)
(** * pawn boards *)

Lemma opponent_col c : (c = 0 \/ c = 1) ->
  (if opponent c =? 0 then Wh else Bl) = other (if c =? 0 then Wh else Bl).
Proof. intros [-> | ->]; reflexivity. Qed.

Theorem pawn_captureboard_flip c x : (c = 0 \/ c = 1) -> x < 2 ^ 64 ->
  pawn_captureboard (opponent c) (flip_bb x) = flip_bb (pawn_captureboard c x).
Proof.
  intros Hc Hx. apply N.bits_inj. intros i.
  rewrite (AttackGeometry3.pawn_capture_geometric (opponent c) (flip_bb x) i (vcol_opponent c) (flip_bb_word x)).
  rewrite tb_flip_bb, (AttackGeometry3.pawn_capture_geometric c x (mirror_sq i) Hc Hx).
  destruct (N.ltb_spec i 64) as [Hi|Hi]; [|reflexivity]. pose proof (mirror_sq_lt i Hi) as Hm.
  destruct (N.ltb_spec (mirror_sq i) 64); [|lia]. cbn [andb].
  rewrite (opponent_col c Hc). set (col := if c =? 0 then Wh else Bl).
  rewrite <- (existsb_mirror (fun s => N.testbit (flip_bb x) (N.of_nat s) &&
     mem_nat (N.to_nat i) (attacks_from (fun _ : nat => false) (other col) P s))).
  apply existsb_ext_in. intros s Hs. apply in_all_squares in Hs.
  pose proof (occ_of_flip x s Hs) as E. unfold occ_of in E. rewrite E. apply (f_equal (andb _)).
  replace (N.to_nat i) with (mirror_nat (N.to_nat (mirror_sq i))) by (rewrite mirror_nat_N, mirror_sq_invol; reflexivity).
  exact (attacks_from_mirror (fun _ => false) (fun _ => false) (fun _ _ => eq_refl) col P s (N.to_nat (mirror_sq i)) Hs).
Qed.

Lemma shr8_flip x : shr64 (flip_bb x) 8 = flip_bb (shl64 x 8).
Proof.
  apply N.bits_inj. intros i. rewrite AttackGeometry1.tb_shr64, !tb_flip_bb, AttackGeometry1.tb_shl64.
  destruct (N.ltb_spec i 64) as [Hi|Hi].
  - pose proof (mirror_sq_lt i Hi) as Hm. pose proof (mirror_sq_arith i Hi) as Ei.
    destruct (N.ltb_spec (mirror_sq i) 64); [|lia]. cbn [andb].
    destruct (N.ltb_spec (i + 8) 64) as [H8|H8].
    + pose proof (mirror_sq_arith (i + 8) H8) as E8.
      destruct (N.leb_spec 8 (mirror_sq i)); [|lia]. cbn [andb]. apply (f_equal (N.testbit x)). lia.
    + destruct (N.leb_spec 8 (mirror_sq i)); [lia|reflexivity].
  - destruct (N.ltb_spec (i + 8) 64); [lia|reflexivity].
Qed.

Lemma shl8_flip x : x < 2 ^ 64 -> shl64 (flip_bb x) 8 = flip_bb (shr64 x 8).
Proof.
  intros Hx. apply N.bits_inj. intros i. rewrite AttackGeometry1.tb_shl64, !tb_flip_bb, AttackGeometry1.tb_shr64.
  destruct (N.ltb_spec i 64) as [Hi|Hi]; [|reflexivity]. cbn [andb].
  pose proof (mirror_sq_lt i Hi) as Hm. pose proof (mirror_sq_arith i Hi) as Ei.
  destruct (N.leb_spec 8 i) as [H8|H8]; cbn [andb].
  - destruct (N.ltb_spec (i - 8) 64); [|lia]. cbn [andb].
    assert (H8' : i - 8 < 64) by lia. pose proof (mirror_sq_arith (i - 8) H8') as E8.
    apply (f_equal (N.testbit x)). lia.
  - symmetry. apply (proj1 (word_bits x) Hx). lia.
Qed.

Theorem pawn_moveboard_flip all c x : (c = 0 \/ c = 1) -> x < 2 ^ 64 ->
  pawn_moveboard (flip_bb all) (opponent c) (flip_bb x) = flip_bb (pawn_moveboard all c x).
Proof.
  intros [-> | ->] Hx; unfold pawn_moveboard.
  - change (opponent 0 =? White) with false. change (0 =? White) with true. cbv iota.
    now rewrite flip_bb_land, flip_bb_not64, shr8_flip.
  - change (opponent 1 =? White) with true. change (1 =? White) with false. cbv iota.
    now rewrite flip_bb_land, flip_bb_not64, (shl8_flip x Hx).
Qed.

Lemma pawn_ranks_flip c : (c = 0 \/ c = 1) ->
  pawn_jump_rank (opponent c) = flip_bb (pawn_jump_rank c) /\
  pawn_promotion_rank (opponent c) = flip_bb (pawn_promotion_rank c).
Proof. intros [-> | ->]; split; vm_compute; reflexivity. Qed.

Lemma not64_word x : not64 x < 2 ^ 64.
Proof.
  apply word_bits. intros i Hi. rewrite MoveGen4.tb_not64. destruct (N.ltb_spec i 64); [lia|reflexivity].
Qed.

Lemma pawn_moveboard_word all c x : pawn_moveboard all c x < 2 ^ 64.
Proof. unfold pawn_moveboard. destruct (c =? White); apply land_word_r, not64_word. Qed.

Print Assumptions attackboard_flip.
Print Assumptions pawn_captureboard_flip.
Print Assumptions pawn_moveboard_flip.
