(** EnginesLemmas5 — C20, part 6a: the colour mirror on 64-bit words ([flip_bb] = byte swap) and on the piece
    boards; piece counts commute with the mirror, hence the material evaluations are colour-blind. *)
From Coq Require Import NArith ZArith List Bool Lia ZifyBool ZifyNat ZifyN Permutation.
From Morlock.Model Require Import Bits Attacks Move Position Abs Search Fen Engines.
From Morlock.Lemmas Require Import PositionLemmas AttackGeometry1 GameLemmas1 EnginesLemmas3.
Import ListNotations.
Open Scope N_scope.

Ltac Zify.zify_post_hook ::= Z.div_mod_to_equations.

(* ------------------------------------------------------------------ *)
(** * mirror_sq *)

Lemma mirror_sq_arith_b : forallb (fun i => (mirror_sq i =? i mod 8 + 8 * (7 - i / 8)) && (mirror_sq i <? 64) &&
                                            (mirror_sq (mirror_sq i) =? i)) (seqN 64) = true.
Proof. vm_compute. reflexivity. Qed.

Lemma mirror_sq_arith i : i < 64 -> mirror_sq i = i mod 8 + 8 * (7 - i / 8).
Proof.
  intros Hi. pose proof mirror_sq_arith_b as H. rewrite forallb_forall in H.
  specialize (H i (proj2 (in_seqN64 i) Hi)). rewrite !andb_true_iff in H. destruct H as [[H _] _]. now apply N.eqb_eq in H.
Qed.

Lemma mirror_sq_lt i : i < 64 -> mirror_sq i < 64.
Proof. intros Hi. rewrite (mirror_sq_arith i Hi). lia. Qed.

Lemma mirror_sq_invol i : mirror_sq (mirror_sq i) = i.
Proof. unfold mirror_sq. rewrite N.lxor_assoc. change (N.lxor 56 56) with 0. apply N.lxor_0_r. Qed.

Lemma mirror_sq_inj i j : mirror_sq i = mirror_sq j -> i = j.
Proof. intros H. rewrite <- (mirror_sq_invol i), H. apply mirror_sq_invol. Qed.

(* ------------------------------------------------------------------ *)
(** * flip_bb *)

Lemma flip_bb_unfold x : flip_bb x =
  N.lor (N.lor (N.lor (N.lor (N.lor (N.lor (N.lor (N.lor 0
    (shl64 (N.land (shr64 x 0) 255) 56)) (shl64 (N.land (shr64 x 8) 255) 48))
    (shl64 (N.land (shr64 x 16) 255) 40)) (shl64 (N.land (shr64 x 24) 255) 32))
    (shl64 (N.land (shr64 x 32) 255) 24)) (shl64 (N.land (shr64 x 40) 255) 16))
    (shl64 (N.land (shr64 x 48) 255) 8)) (shl64 (N.land (shr64 x 56) 255) 0).
Proof. reflexivity. Qed.

Lemma tb_255 j : N.testbit 255 j = (j <? 8).
Proof.
  change 255 with (N.ones 8). destruct (N.ltb_spec j 8).
  - now apply N.ones_spec_low.
  - now apply N.ones_spec_high.
Qed.

Lemma tb_term x a d i :
  N.testbit (shl64 (N.land (shr64 x a) 255) d) i = (i <? 64) && (d <=? i) && (i - d <? 8) && N.testbit x (i - d + a).
Proof.
  rewrite tb_shl64, N.land_spec, tb_255. unfold shr64. rewrite N.shiftr_spec'.
  destruct (i <? 64), (d <=? i), (i - d <? 8), (N.testbit x (i - d + a)); reflexivity.
Qed.

Theorem tb_flip_bb x i : N.testbit (flip_bb x) i = (i <? 64) && N.testbit x (mirror_sq i).
Proof.
  rewrite flip_bb_unfold, !N.lor_spec, !tb_term, N.bits_0.
  destruct (N.ltb_spec i 64) as [Hi|Hi]; [|reflexivity].
  rewrite (mirror_sq_arith i Hi). cbn [andb orb].
  assert (Hq : i / 8 = 0 \/ i / 8 = 1 \/ i / 8 = 2 \/ i / 8 = 3 \/ i / 8 = 4 \/ i / 8 = 5 \/ i / 8 = 6 \/ i / 8 = 7) by lia.
  destruct Hq as [E|[E|[E|[E|[E|[E|[E|E]]]]]]]; rewrite E;
  repeat match goal with
  | |- context [?a <=? ?b] => destruct (N.leb_spec a b); try (exfalso; lia)
  | |- context [?a <? ?b] => destruct (N.ltb_spec a b); try (exfalso; lia)
  end; cbn [andb orb]; rewrite ?orb_false_r; f_equal; lia.
Qed.

Lemma flip_bb_word x : flip_bb x < 2 ^ 64.
Proof. apply word_bits. intros i Hi. rewrite tb_flip_bb. destruct (N.ltb_spec i 64); [lia|reflexivity]. Qed.

Lemma tb_flip_bb64 x i : i < 64 -> N.testbit (flip_bb x) i = N.testbit x (mirror_sq i).
Proof. intros Hi. rewrite tb_flip_bb. destruct (N.ltb_spec i 64); [reflexivity|lia]. Qed.

Lemma flip_bb_invol x : x < 2 ^ 64 -> flip_bb (flip_bb x) = x.
Proof.
  intros Hx. apply N.bits_inj. intros i. rewrite tb_flip_bb.
  destruct (N.ltb_spec i 64) as [Hi|Hi].
  - rewrite tb_flip_bb64 by now apply mirror_sq_lt. now rewrite mirror_sq_invol.
  - symmetry. now apply high_bits_zero.
Qed.

Lemma flip_bb_lor a b : flip_bb (N.lor a b) = N.lor (flip_bb a) (flip_bb b).
Proof. apply N.bits_inj. intros i. rewrite N.lor_spec, !tb_flip_bb, N.lor_spec. destruct (i <? 64); reflexivity. Qed.

Lemma flip_bb_land a b : flip_bb (N.land a b) = N.land (flip_bb a) (flip_bb b).
Proof. apply N.bits_inj. intros i. rewrite N.land_spec, !tb_flip_bb, N.land_spec. destruct (i <? 64); cbn; [reflexivity|]. reflexivity. Qed.

Lemma flip_bb_0 : flip_bb 0 = 0.
Proof. reflexivity. Qed.

Lemma flip_bb_eq0 a : a < 2 ^ 64 -> flip_bb a = 0 -> a = 0.
Proof. intros Ha H. rewrite <- (flip_bb_invol a Ha), H. reflexivity. Qed.

Lemma flip_bb_bitmask s : s < 64 -> flip_bb (bitmask s) = bitmask (mirror_sq s).
Proof.
  intros Hs. apply N.bits_inj. intros i. rewrite tb_flip_bb, !tb_bitmask.
  destruct (N.ltb_spec i 64) as [Hi|Hi]; [|reflexivity]. pose proof (mirror_sq_lt i Hi).
  destruct (N.ltb_spec (mirror_sq i) 64); [|lia]. cbn [andb].
  destruct (N.eqb_spec s (mirror_sq i)) as [E|E]; destruct (N.eqb_spec (mirror_sq s) i) as [E'|E']; try reflexivity; exfalso.
  - apply E'. rewrite E. apply mirror_sq_invol.
  - apply E. rewrite <- E'. symmetry. apply mirror_sq_invol.
Qed.

(* ------------------------------------------------------------------ *)
(** * popcount is invariant *)

Lemma Permutation_filter {A} (f : A -> bool) l l' : Permutation l l' -> Permutation (filter f l) (filter f l').
Proof.
  induction 1 as [|x l l' H IH|x y l|l l' l'' H1 IH1 H2 IH2]; cbn.
  - constructor.
  - destruct (f x); [now constructor|exact IH].
  - destruct (f x), (f y); try apply Permutation_refl. apply perm_swap.
  - eapply perm_trans; eassumption.
Qed.

Lemma filter_map_length {A B} (f : B -> bool) (g : A -> B) l : length (filter f (map g l)) = length (filter (fun x => f (g x)) l).
Proof. induction l as [|a l IH]; cbn; [reflexivity|]. destruct (f (g a)); cbn; now rewrite IH. Qed.

Lemma mirror_seq_perm : Permutation (map mirror_sq (seqN 64)) (seqN 64).
Proof.
  apply NoDup_Permutation.
  - apply FinFun.Injective_map_NoDup; [intros a b; apply mirror_sq_inj|apply NoDup_seqN].
  - apply NoDup_seqN.
  - intros x. rewrite in_map_iff, in_seqN64. split.
    + intros [y [<- Hy]]. apply in_seqN64 in Hy. now apply mirror_sq_lt.
    + intros Hx. exists (mirror_sq x). split; [apply mirror_sq_invol|]. apply in_seqN64. now apply mirror_sq_lt.
Qed.

Lemma cnt_mirror f : cnt (fun s => f (mirror_sq s)) = cnt f.
Proof.
  unfold cnt. rewrite <- filter_map_length. apply Permutation_length, Permutation_filter, mirror_seq_perm.
Qed.

Theorem popcount_flip x : x < 2 ^ 64 -> popcount (flip_bb x) = popcount x.
Proof.
  intros Hx. rewrite (popcount_cnt _ (flip_bb_word x)), (popcount_cnt _ Hx). f_equal.
  rewrite <- (cnt_mirror (N.testbit x)). apply cnt_ext. intros s Hs. now apply tb_flip_bb64.
Qed.

(* ------------------------------------------------------------------ *)
(** * the piece boards of the mirrored position *)

Lemma opponent_0 : opponent 0 = 1. Proof. reflexivity. Qed.
Lemma opponent_1 : opponent 1 = 0. Proof. reflexivity. Qed.

Lemma nth_map_flip l i : nth i (map flip_bb l) 0 = flip_bb (nth i l 0).
Proof. rewrite <- flip_bb_0 at 1. apply map_nth. Qed.

Theorem pget_mirror p c k : length (pieces p) = 14%nat -> (c = 0 \/ c = 1) -> k <= 6 ->
  pget (mirror_pos p) c k = flip_bb (pget p (opponent c) k).
Proof.
  intros Hl Hc Hk. unfold pget, mirror_pos, nthN. cbn [pieces].
  destruct (pieces p) as [|a0 [|a1 [|a2 [|a3 [|a4 [|a5 [|a6 [|b0 [|b1 [|b2 [|b3 [|b4 [|b5 [|b6 [|x r]]]]]]]]]]]]]]]; try discriminate.
  cbn [skipn firstn map app].
  assert (Hk' : k = 0 \/ k = 1 \/ k = 2 \/ k = 3 \/ k = 4 \/ k = 5 \/ k = 6) by lia.
  destruct Hc as [-> | ->]; destruct Hk' as [-> |[-> |[-> |[-> |[-> |[-> | -> ]]]]]]; reflexivity.
Qed.

Lemma length_mirror_pieces p : length (pieces p) = 14%nat -> length (pieces (mirror_pos p)) = 14%nat.
Proof.
  intros Hl. unfold mirror_pos. cbn [pieces].
  rewrite app_length, !map_length, !firstn_length, skipn_length. lia.
Qed.

Theorem popcount_pget_mirror p c k : Inv p -> (c = 0 \/ c = 1) -> k <= 6 ->
  popcount (pget (mirror_pos p) c k) = popcount (pget p (opponent c) k).
Proof.
  intros HI Hc Hk. rewrite (pget_mirror p c k (Inv_len _ HI) Hc Hk). apply popcount_flip. now apply pget_word.
Qed.

Lemma opponent_invol c : (c = 0 \/ c = 1) -> opponent (opponent c) = c.
Proof. intros [-> | ->]; reflexivity. Qed.

Lemma cntZ_mirror p c k : Inv p -> (c = 0 \/ c = 1) -> k <= 6 ->
  cntZ (pget (mirror_pos p) (opponent c) k) = cntZ (pget p c k).
Proof.
  intros HI Hc Hk. unfold cntZ. rewrite (popcount_pget_mirror p (opponent c) k HI (opponent_vcol _ Hc) Hk).
  now rewrite (opponent_invol c Hc).
Qed.

Lemma cntZ_mirror' p c k : Inv p -> (c = 0 \/ c = 1) -> k <= 6 ->
  cntZ (pget (mirror_pos p) c k) = cntZ (pget p (opponent c) k).
Proof. intros HI Hc Hk. unfold cntZ. now rewrite (popcount_pget_mirror p c k HI Hc Hk). Qed.

(* ------------------------------------------------------------------ *)
(** * colour-blindness of the material evaluations *)

(** C20 (6): eval.Material gives the side to move of the mirrored position the same value *)
Theorem material_colourblind p turn : Inv p -> (turn = 0 \/ turn = 1) ->
  material_pos (mirror_pos p) (opponent turn) = material_pos p turn.
Proof.
  intros HI Hc. rewrite !material_pos_eq. rewrite (opponent_invol turn Hc).
  rewrite !(cntZ_mirror p turn) by (try assumption; unfold Pawn, Bishop, Knight, Rook, Queen, King; lia).
  rewrite !(cntZ_mirror' p turn) by (try assumption; unfold Pawn, Bishop, Knight, Rook, Queen, King; lia).
  reflexivity.
Qed.

Lemma turo_sum2_mirror p c : Inv p -> (c = 0 \/ c = 1) -> turo_sum2 (mirror_pos p) (opponent c) = turo_sum2 p c.
Proof.
  intros HI Hc. unfold turo_sum2.
  rewrite !(cntZ_mirror p c) by (try assumption; unfold Pawn, Bishop, Knight, Rook, Queen, King; lia). reflexivity.
Qed.

Theorem turochamp_material_colourblind p turn : Inv p -> (turn = 0 \/ turn = 1) ->
  turo_material2 (mirror_pos p) (opponent turn) = turo_material2 p turn /\
  turo_material2 (mirror_pos p) turn = turo_material2 p (opponent turn) /\
  turo_material_eval (mirror_pos p) (opponent turn) = turo_material_eval p turn.
Proof.
  intros HI Hc.
  assert (E1 : turo_material2 (mirror_pos p) (opponent turn) = turo_material2 p turn)
    by (rewrite !turo_material2_eq; now rewrite turo_sum2_mirror).
  assert (E2 : turo_material2 (mirror_pos p) turn = turo_material2 p (opponent turn)).
  { rewrite !turo_material2_eq.
    pose proof (turo_sum2_mirror p (opponent turn) HI (opponent_vcol _ Hc)) as E. rewrite (opponent_invol turn Hc) in E.
    now rewrite E. }
  split; [exact E1|]. split; [exact E2|].
  unfold turo_material_eval. rewrite (opponent_invol turn Hc). now rewrite E1, E2.
Qed.

Theorem bernstein_material_colourblind p side : Inv p -> (side = 0 \/ side = 1) ->
  bern_material (mirror_pos p) (opponent side) = bern_material p side.
Proof.
  intros HI Hc. unfold bern_material.
  rewrite !(cntZ_mirror p side) by (try assumption; unfold Pawn, Bishop, Knight, Rook, Queen, King; lia). reflexivity.
Qed.

Print Assumptions tb_flip_bb.
Print Assumptions popcount_flip.
Print Assumptions popcount_pget_mirror.
Print Assumptions material_colourblind.
Print Assumptions turochamp_material_colourblind.
