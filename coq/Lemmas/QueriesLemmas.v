(** QueriesLemmas — summary of the theorems about the derived queries of pkg/eval (C06, last sentence):
    FindCapture ("which pieces can capture on this square") and FindPins ("which pieces are pinned
    against this king or queen") agree with their definitions on the mailbox board, for every position
    satisfying the representation invariant [inv_b].
    Proofs: QueriesLemmas1 (FindCapture), QueriesLemmas2 (x-ray argument on abstract lines),
    QueriesLemmas3 (geometry of the empty-board lines, finite checks), QueriesLemmas4 (one sweep of
    FindPins, [candidate] has at most one bit), QueriesLemmas5 (FindPins). *)
From Coq Require Import NArith ZArith List Bool Sorted Permutation.
From Morlock.Model Require Import Bits Attacks Move Position Abs Queries.
From Morlock.Spec Require Import Chess.
From Morlock.Lemmas Require Import PositionLemmas.
From Morlock.Lemmas Require Export QueriesLemmas1 QueriesLemmas2 QueriesLemmas3 QueriesLemmas4 QueriesLemmas5.
Import ListNotations.
Open Scope N_scope.

Module QStatements.
  (** (a) FindCapture: pieces mapped by [kind_of], squares by [N.to_nat] *)
  Theorem find_capture_spec : forall pos side sq,
    inv_b pos = true -> (side = White \/ side = Black) -> sq < 64 ->
    Permutation (map cap_abs (find_capture pos side sq))
                (map cap_some (spec_capturers (brd (abs_pos pos)) (color_of side) (N.to_nat sq))).
  Proof. exact QueriesLemmas1.find_capture_spec. Qed.

  (** every reported piece code is a piece kind, so [cap_abs] loses no information *)
  Theorem find_capture_kinds : forall pos side sq p s,
    In (p, s) (find_capture pos side sq) -> exists k, kind_of p = Some k.
  Proof. exact QueriesLemmas1.find_capture_kinds. Qed.

  (** order: the list is grouped by piece in the order K Q R N B P and, within a piece, the squares
      ascend; [captures_b pos side sq k s] = "[s] holds a [k] of [side] that attacks [sq]" *)
  Theorem find_capture_exact : forall pos side sq,
    inv_b pos = true -> (side = White \/ side = Black) -> sq < 64 ->
    find_capture pos side sq =
    flat_map (fun k => map (fun s => (code_of_kind k, s)) (filter (captures_b pos side sq k) (seqN 64)))
             [K; Q; R; Kn; Bi; P].
  Proof. intros pos side sq HI. apply inv_b_iff in HI. now apply QueriesLemmas1.find_capture_exact. Qed.

  Theorem find_capture_squares_ascend : forall pos side sq k,
    inv_b pos = true -> (side = White \/ side = Black) -> sq < 64 ->
    StronglySorted N.lt (map snd (filter (fun x => fst x =? code_of_kind k) (find_capture pos side sq))).
  Proof. intros pos side sq k HI. apply inv_b_iff in HI. now apply QueriesLemmas1.find_capture_squares_ascend. Qed.

  (** the reverse-direction trick of capture.go *)
  Theorem pawn_reverse : forall side sq s, (side = White \/ side = Black) -> sq < 64 ->
    N.testbit (pawn_captureboard (opponent side) (bitmask sq)) s =
    (s <? 64) && mem_nat (N.to_nat sq) (attacks_from (fun _ => false) (color_of side) P (N.to_nat s)).
  Proof. exact QueriesLemmas1.pawn_reverse. Qed.

  (** (b) FindPins: (attacker, pinned, target) mapped by [N.to_nat] *)
  Theorem find_pins_spec : forall pos side piece k,
    inv_b pos = true -> (side = White \/ side = Black) -> kind_of piece = Some k ->
    Permutation (map pin_nat (find_pins pos side piece))
                (spec_pins (brd (abs_pos pos)) (color_of side) k).
  Proof. exact QueriesLemmas5.find_pins_spec. Qed.

  (** the subtle point of pins.go: the word [candidate] never has two bits, so
      [candidate.LastPopSquare()] is the one attacker behind the pinned piece *)
  Theorem rook_candidate_one_bit : forall pos side target pinned a a',
    inv_b pos = true -> (side = White \/ side = Black) -> target < 64 ->
    N.testbit (pget pos side NoPiece) pinned = true ->
    N.testbit (candidate pos side target rook_attackboard Rook pinned) a = true ->
    N.testbit (candidate pos side target rook_attackboard Rook pinned) a' = true -> a = a'.
  Proof.
    intros pos side target pinned a a' HI Hc Ht. apply inv_b_iff in HI.
    apply (candidate_one_bit pos side target rook_attackboard rook_dirs Rook HI Hc Ht rook_line_ok in_dirs8_rook vpc_Rook).
  Qed.
  Theorem bishop_candidate_one_bit : forall pos side target pinned a a',
    inv_b pos = true -> (side = White \/ side = Black) -> target < 64 ->
    N.testbit (pget pos side NoPiece) pinned = true ->
    N.testbit (candidate pos side target bishop_attackboard Bishop pinned) a = true ->
    N.testbit (candidate pos side target bishop_attackboard Bishop pinned) a' = true -> a = a'.
  Proof.
    intros pos side target pinned a a' HI Hc Ht. apply inv_b_iff in HI.
    apply (candidate_one_bit pos side target bishop_attackboard bishop_dirs Bishop HI Hc Ht bishop_line_ok in_dirs8_bishop vpc_Bishop).
  Qed.
End QStatements.

Print Assumptions QStatements.find_capture_spec.
Print Assumptions QStatements.find_capture_exact.
Print Assumptions QStatements.find_capture_squares_ascend.
Print Assumptions QStatements.find_pins_spec.
Print Assumptions QStatements.rook_candidate_one_bit.
Print Assumptions QStatements.bishop_candidate_one_bit.

(** Non-vacuity: white Ke1, Re2, Bd2, Nf2 against black Qe8, Ba5, Qh4 (and Ka8): three pins on the
    white king, found by the model in the order file / diagonals-by-square and by the specification
    in the order of directions; b-queen h4 is the one black piece that captures on f2. *)
Definition ex_pos : option position :=
  new_position [mkPlacement 3 White King; mkPlacement 11 White Rook; mkPlacement 59 Black Queen;
                mkPlacement 12 White Bishop; mkPlacement 39 Black Bishop; mkPlacement 10 White Knight;
                mkPlacement 24 Black Queen; mkPlacement 63 Black King] 0 0.
Example ex_pins :
  option_map (fun p => (inv_b p, find_pins p White King, spec_pins (brd (abs_pos p)) Wh K,
                        find_capture p Black 10, spec_capturers (brd (abs_pos p)) Bl 10)) ex_pos =
  Some (true, [(59, 11, 3); (24, 10, 3); (39, 12, 3)],
        [(59, 11, 3); (39, 12, 3); (24, 10, 3)]%nat, [(Queen, 24)], [(Q, 24%nat)]).
Proof. vm_compute. reflexivity. Qed.
