(** C10, engine part 3: the `position` command.  Playing move tokens refines [play_strs]; a new position is
    set up as [setup] prescribes ([position_fresh]); a line that extends the previous one at a token boundary is
    the previous game continued by the extra tokens ([setup_extend]) and the continuation branch plays exactly
    these ([position_continuation]). *)
From Coq Require Import NArith ZArith List Bool Lia ZifyBool ZifyNat ZifyN.
From Morlock.Model Require Import Bits Attacks Move Position Zobrist Board Fen Abs Engine EngineSpec.
From Morlock.Spec Require Import Chess Game.
From Morlock.Lemmas Require Import PositionLemmas BoardHeap1 FenLemmas2 EngineLemmas1 EngineLemmas2.
Import ListNotations.
Open Scope N_scope.

(* ------------------------------------------------------------------ *)
(** * 1. [setup], unfolded *)

Definition notmoves (a : str) : bool := negb (str_eqb a moves_tok).
Definition line_args (line : str) : list str := tl (split_space (trim_space line)).
Definition fen_of_args (args : list str) : str :=
  if (7 <=? length args)%nat && str_eqb (hd [] args) fen_tok then join_space (firstn 6 (tl args)) else fen_initial.
(** the FEN a `position` line selects *)
Definition line_fen (line : str) : str := fen_of_args (line_args line).

Lemma setup_eq line :
  setup line = match gstate_of_fen (line_fen line) with
               | Some g => play_strs g (filter notmoves (after_moves_tok (line_args line)))
               | None => None
               end.
Proof. reflexivity. Qed.

Lemma play_strs_app a : forall g b,
  play_strs g (a ++ b) = match play_strs g a with Some g1 => play_strs g1 b | None => None end.
Proof.
  induction a as [|s a IH]; intros g b; [reflexivity|]. cbn [app play_strs].
  destruct (smove_of_str g s); [apply IH|reflexivity].
Qed.

(* ------------------------------------------------------------------ *)
(** * 2. playing move tokens *)

(** the driver's loop over move tokens computes [play_strs] (tokens "moves" skipped) and fails exactly when
    [play_strs] does *)
Theorem play_moves_spec z toks : forall e g, ERel e g -> EInv e ->
  match play_strs g (filter notmoves toks) with
  | Some g' => exists e', play_moves z e toks = Some e' /\ ERel e' g' /\ EInv e'
  | None => play_moves z e toks = None
  end.
Proof.
  induction toks as [|a r IH]; intros e g Hrel Hinv.
  - cbn. eauto.
  - cbn [filter play_moves]. unfold notmoves at 1.
    destruct (str_eqb a moves_tok); cbn [negb]; [exact (IH e g Hrel Hinv)|].
    cbn [play_strs].
    destruct (engine_move_iff_legal z e g a Hrel Hinv) as [Hiff [Hacc Hrej]].
    destruct (eng_move z e a) as [e1 ok] eqn:Hm. cbn [fst snd] in *.
    destruct (smove_of_str g a) as [sm|] eqn:Hs.
    + assert (ok = true) by (apply Hiff; discriminate). subst ok.
      destruct (Hacc sm eq_refl) as [R1 I1]. exact (IH e1 _ R1 I1).
    + destruct ok; [|reflexivity]. exfalso. apply (proj1 Hiff); reflexivity.
Qed.
Print Assumptions play_moves_spec.

(** the loop of the new-position branch: skip up to the first "moves", then play *)
Lemma play_after_moves_eq z args : forall e,
  play_after_moves z e args true = play_moves z e args /\
  play_after_moves z e args false = play_moves z e (after_moves_tok args).
Proof.
  induction args as [|a r IH]; intros e; [split; reflexivity|].
  cbn [play_after_moves play_moves after_moves_tok].
  destruct (str_eqb a moves_tok).
  - split; exact (proj1 (IH e)).
  - split; [|exact (proj2 (IH e))].
    destruct (eng_move z e a) as [e1 ok]. destruct ok; [exact (proj1 (IH e1))|reflexivity].
Qed.

(* ------------------------------------------------------------------ *)
(** * 3. a new position *)

Lemma cmd_position_fresh_eq z st line :
  (d_last st = [] \/ is_continuation line (d_last st) = false) ->
  cmd_position z st line =
    let (e0, ok) := eng_reset z (d_eng st) (line_fen line) in
    if negb ok then Exited else
    match play_moves z e0 (after_moves_tok (line_args line)) with
    | Some e => Running (mkD e line)
    | None => Exited
    end.
Proof.
  intros H. unfold cmd_position.
  assert (E : negb (match d_last st with [] => true | _ => false end) && is_continuation line (d_last st) = false).
  { destruct H as [->| ->]; [reflexivity|apply andb_false_r]. }
  rewrite E. fold (line_args line). fold (fen_of_args (line_args line)). fold (line_fen line).
  destruct (eng_reset z (d_eng st) (line_fen line)) as [e0 ok]. destruct (negb ok); [reflexivity|].
  now rewrite (proj2 (play_after_moves_eq z (line_args line) e0)).
Qed.

(** C10, new position: whatever the engine held before, the game is the one the line describes.
    No assumption on the form of the line is needed here: [setup] reads the tokens the way the driver does. *)
Theorem position_fresh z st line g :
  setup line = Some g -> fen_legal (line_fen line) ->
  (d_last st = [] \/ is_continuation line (d_last st) = false) ->
  exists st', cmd_position z st line = Running st' /\
              ERel (d_eng st') g /\ EInv (d_eng st') /\ d_last st' = line.
Proof.
  intros Hs Hleg Hnc. rewrite (cmd_position_fresh_eq z st line Hnc). rewrite setup_eq in Hs.
  destruct (eng_reset z (d_eng st) (line_fen line)) as [e0 ok] eqn:Hr.
  destruct (reset_refines z _ _ _ _ Hr) as [Hok Hfail].
  destruct ok; cbn [negb].
  2:{ destruct (Hfail eq_refl) as [_ E]. rewrite E in Hs. discriminate. }
  destruct (Hok eq_refl) as [g0 [Eg [R0 I0]]]. rewrite Eg in Hs.
  pose proof (play_moves_spec z (after_moves_tok (line_args line)) e0 g0 R0 (I0 Hleg)) as Hp.
  rewrite Hs in Hp. destruct Hp as [e' [-> [R I]]].
  eexists. split; [reflexivity|]. cbn [d_eng d_last]. auto.
Qed.
Print Assumptions position_fresh.

(** ... and a line that describes no game (bad FEN, or a token that is not a legal move) makes the driver give up
    (the Go code logs the error and returns from its command loop). *)
Theorem position_fresh_rejects z st line :
  setup line = None -> (gstate_of_fen (line_fen line) = None \/ fen_legal (line_fen line)) ->
  (d_last st = [] \/ is_continuation line (d_last st) = false) ->
  cmd_position z st line = Exited.
Proof.
  intros Hs Hleg Hnc. rewrite (cmd_position_fresh_eq z st line Hnc). rewrite setup_eq in Hs.
  destruct (eng_reset z (d_eng st) (line_fen line)) as [e0 ok] eqn:Hr.
  destruct (reset_refines z _ _ _ _ Hr) as [Hok Hfail].
  destruct ok; cbn [negb]; [|reflexivity].
  destruct (Hok eq_refl) as [g0 [Eg [R0 I0]]]. rewrite Eg in Hs, Hleg.
  destruct Hleg as [Hleg|Hleg]; [discriminate|].
  pose proof (play_moves_spec z (after_moves_tok (line_args line)) e0 g0 R0 (I0 Hleg)) as Hp.
  rewrite Hs in Hp. now rewrite Hp.
Qed.

(* ------------------------------------------------------------------ *)
(** * 4. strings: prefix, split, fields *)

Lemma is_prefix_app p : forall s, is_prefix p s = true -> exists rest, s = p ++ rest.
Proof.
  induction p as [|x p IH]; intros s H; [now exists s|].
  destruct s as [|y s]; [discriminate|]. cbn [is_prefix] in H. apply andb_true_iff in H as [E H].
  apply N.eqb_eq in E. subst y. destruct (IH s H) as [rest ->]. now exists rest.
Qed.

Lemma is_continuation_cases line last : is_continuation line last = true ->
  line = last \/ exists rest, line = last ++ 32 :: rest.
Proof.
  unfold is_continuation. intros H. apply andb_true_iff in H as [Hp H].
  destruct (is_prefix_app _ _ Hp) as [rest ->].
  apply orb_true_iff in H as [H|H].
  - apply Nat.eqb_eq in H. rewrite app_length in H. left. destruct rest; [now rewrite app_nil_r|cbn in H; lia].
  - right. rewrite nth_error_app2, Nat.sub_diag in H by lia.
    destruct rest as [|c rest]; [discriminate|]. cbn [nth_error] in H.
    exists rest. destruct c as [|c]; [discriminate|].
    assert (c = 32%positive) as ->; [|reflexivity].
    do 6 (destruct c as [c|c|]; try discriminate). reflexivity.
Qed.

Lemma skipn_app_length {A} (a b : list A) : skipn (length a) (a ++ b) = b.
Proof. rewrite skipn_app, skipn_all, Nat.sub_diag. reflexivity. Qed.

Lemma split_space_aux_app b : forall a cur,
  split_space_aux (a ++ 32 :: b) cur = split_space_aux a cur ++ split_space b.
Proof.
  induction a as [|r a IH]; intros cur; [reflexivity|].
  cbn [app split_space_aux]. destruct (r =? 32); [now rewrite IH|apply IH].
Qed.

Lemma split_space_app a b : split_space (a ++ 32 :: b) = split_space a ++ split_space b.
Proof. apply split_space_aux_app. Qed.

Lemma split_space_aux_head : forall s cur, exists w rest, split_space_aux s cur = (rev cur ++ w) :: rest.
Proof.
  induction s as [|r s IH]; intros cur.
  - exists [], []. cbn. now rewrite app_nil_r.
  - cbn [split_space_aux]. destruct (r =? 32).
    + exists [], (split_space_aux s []). now rewrite app_nil_r.
    + destruct (IH (r :: cur)) as [w [rest ->]]. exists (r :: w), rest. cbn [rev]. now rewrite <- app_assoc.
Qed.

Lemma split_space_nonempty s : split_space s <> [].
Proof. destruct (split_space_aux_head s []) as [w [rest H]]. unfold split_space. rewrite H. discriminate. Qed.

(** a token of a line in GUI form: non-empty, no white space inside *)
Definition clean_tokb (t : str) : bool :=
  negb (match t with [] => true | _ => false end) && forallb (fun r => negb (is_space r)) t.

Lemma clean_rev_nonempty cur : clean_tokb (rev cur) = true -> cur <> [].
Proof. intros H ->. discriminate. Qed.

(** on a string all of whose single-space-separated tokens are clean, strings.Fields = strings.Split(" ") *)
Lemma fields_aux_clean : forall s cur, forallb clean_tokb (split_space_aux s cur) = true ->
  fields_aux s cur = split_space_aux s cur.
Proof.
  induction s as [|r s IH]; intros cur H.
  - cbn [split_space_aux forallb] in H. apply andb_true_iff in H as [H _].
    apply clean_rev_nonempty in H. cbn. destruct cur; [contradiction|reflexivity].
  - cbn [split_space_aux fields_aux] in *. destruct (N.eqb_spec r 32) as [->|Hne].
    + cbn [forallb] in H. apply andb_true_iff in H as [H1 H2]. apply clean_rev_nonempty in H1.
      change (is_space 32) with true. cbv iota. destruct cur; [contradiction|]. now rewrite (IH [] H2).
    + assert (Hr : is_space r = false).
      { destruct (split_space_aux_head s (r :: cur)) as [w [rest E]]. rewrite E in H.
        cbn [forallb] in H. apply andb_true_iff in H as [H _]. unfold clean_tokb in H.
        apply andb_true_iff in H as [_ H]. cbn [rev] in H. rewrite !forallb_app in H.
        apply andb_true_iff in H as [H _]. apply andb_true_iff in H as [_ H]. cbn [forallb] in H.
        apply andb_true_iff in H as [H _]. now apply negb_true_iff in H. }
      rewrite Hr. now apply IH.
Qed.

Lemma fields_clean s : forallb clean_tokb (split_space s) = true -> fields s = split_space s.
Proof. apply fields_aux_clean. Qed.

Lemma fields_space_clean s : forallb clean_tokb (split_space s) = true -> fields (32 :: s) = split_space s.
Proof. intros H. unfold fields. cbn [fields_aux]. change (is_space 32) with true. cbv iota. now apply fields_aux_clean. Qed.

(* ------------------------------------------------------------------ *)
(** * 5. GUI form *)

(** length of the position part: "fen" and six fields, or one token ("startpos") *)
Definition pos_len (args : list str) : nat := if str_eqb (hd [] args) fen_tok then 7%nat else 1%nat.

(** A `position` line in GUI form:
    - no leading or trailing white space;
    - split at single spaces, every token (the command word included) is non-empty and contains no white-space
      character: tokens are separated by exactly one space, there are no tabs etc.;
    - the position part is present and complete: "fen" followed by (at least) six tokens, or one other token;
    - what follows the position part is nothing, or begins with the token "moves".
    (Further tokens "moves" among the moves are allowed: driver and [setup] both skip them.) *)
Definition gui_formb (line : str) : bool :=
  str_eqb (trim_space line) line &&
  forallb clean_tokb (split_space line) &&
  (let args := tl (split_space line) in
   (pos_len args <=? length args)%nat &&
   match skipn (pos_len args) args with [] => true | t :: _ => str_eqb t moves_tok end).
Definition gui_form (line : str) : Prop := gui_formb line = true.

Lemma gui_form_elim line : gui_form line ->
  trim_space line = line /\ forallb clean_tokb (split_space line) = true /\
  line_args line = tl (split_space line) /\
  (pos_len (line_args line) <= length (line_args line))%nat /\
  match skipn (pos_len (line_args line)) (line_args line) with [] => True | t :: _ => t = moves_tok end.
Proof.
  unfold gui_form, gui_formb. rewrite !andb_true_iff. intros [[H1 H2] [H3 H4]].
  apply str_eqb_eq in H1. unfold line_args. rewrite H1.
  repeat split; auto; [now apply Nat.leb_le|].
  destruct (skipn _ _); [exact I|now apply str_eqb_eq].
Qed.

Lemma gui_form_nonempty line : gui_form line -> line <> [].
Proof. intros H ->. discriminate. Qed.

(* ------------------------------------------------------------------ *)
(** * 6. extending a line at a token boundary *)

Lemma pos_len_pos args : (1 <= pos_len args)%nat.
Proof. unfold pos_len. destruct (str_eqb _ _); lia. Qed.

Lemma fen_of_args_app ap extra : (pos_len ap <= length ap)%nat -> fen_of_args (ap ++ extra) = fen_of_args ap.
Proof.
  intros H. destruct ap as [|a ap]; [pose proof (pos_len_pos []); cbn [length] in H; lia|].
  unfold fen_of_args, pos_len in *. cbn [hd app tl] in *.
  destruct (str_eqb a fen_tok).
  - rewrite !andb_true_r. cbn [length] in *. rewrite app_length.
    destruct (Nat.leb_spec 7 (S (length ap + length extra))); [|lia].
    destruct (Nat.leb_spec 7 (S (length ap))); [|lia].
    rewrite firstn_app. replace (6 - length ap)%nat with 0%nat by lia. cbn [firstn]. now rewrite app_nil_r.
  - now rewrite !andb_false_r.
Qed.

Definition has_moves (args : list str) : bool := existsb (fun a => str_eqb a moves_tok) args.

Lemma after_moves_app_in ap x : has_moves ap = true -> after_moves_tok (ap ++ x) = after_moves_tok ap ++ x.
Proof.
  induction ap as [|a ap IH]; [discriminate|]. cbn [has_moves existsb app after_moves_tok].
  destruct (str_eqb a moves_tok); [reflexivity|]. exact IH.
Qed.

Lemma after_moves_app_notin ap x : has_moves ap = false ->
  after_moves_tok (ap ++ x) = after_moves_tok x /\ after_moves_tok ap = [].
Proof.
  induction ap as [|a ap IH]; [auto|]. cbn [has_moves existsb app after_moves_tok].
  destruct (str_eqb a moves_tok); [discriminate|]. exact IH.
Qed.

Lemma has_moves_in t args : In t args -> t = moves_tok -> has_moves args = true.
Proof.
  intros Hin ->. apply existsb_exists. exists moves_tok. split; [exact Hin|reflexivity].
Qed.

Lemma filter_after_moves_head extra : match extra with [] => True | t :: _ => t = moves_tok end ->
  filter notmoves (after_moves_tok extra) = filter notmoves extra.
Proof.
  destruct extra as [|t r]; [reflexivity|]. intros ->. reflexivity.
Qed.

(** the token-level core: both lines in GUI form, the second the first plus a space and more text *)
Lemma args_extend prev rest : gui_form prev -> gui_form (prev ++ 32 :: rest) ->
  let extra := fields (32 :: rest) in
  line_args (prev ++ 32 :: rest) = line_args prev ++ extra /\
  line_fen (prev ++ 32 :: rest) = line_fen prev /\
  filter notmoves (after_moves_tok (line_args (prev ++ 32 :: rest))) =
    filter notmoves (after_moves_tok (line_args prev)) ++ filter notmoves extra.
Proof.
  intros Hp Hl. cbv zeta.
  destruct (gui_form_elim _ Hp) as [_ [_ [Ap [Lp Sp]]]].
  destruct (gui_form_elim _ Hl) as [_ [Cl [Al [_ Sl]]]].
  rewrite split_space_app in Cl, Al. rewrite forallb_app in Cl. apply andb_true_iff in Cl as [_ Cr].
  rewrite (fields_space_clean rest Cr).
  assert (Eargs : line_args (prev ++ 32 :: rest) = line_args prev ++ split_space rest).
  { rewrite Al, Ap. pose proof (split_space_nonempty prev) as Hne.
    destruct (split_space prev); [contradiction|reflexivity]. }
  split; [exact Eargs|].
  unfold line_fen. rewrite Eargs in Sl |- *.
  split; [now apply fen_of_args_app|].
  set (ap := line_args prev) in *. set (extra := split_space rest) in *.
  destruct (has_moves ap) eqn:Hm.
  - rewrite (after_moves_app_in _ _ Hm). apply filter_app.
  - destruct (after_moves_app_notin ap extra Hm) as [E1 E2]. rewrite E1, E2. cbn [filter app].
    apply filter_after_moves_head.
    assert (Hlen : length ap = pos_len ap).
    { destruct (skipn (pos_len ap) ap) as [|t r] eqn:Es.
      - apply (f_equal (@length _)) in Es. rewrite skipn_length in Es. cbn [length] in Es. lia.
      - exfalso. subst t. assert (Hin : In moves_tok ap).
        { rewrite <- (firstn_skipn (pos_len ap) ap), Es. apply in_or_app. right. now left. }
        rewrite (has_moves_in _ _ Hin eq_refl) in Hm. discriminate. }
    assert (Hpl : pos_len (ap ++ extra) = pos_len ap).
    { unfold pos_len. destruct ap; [pose proof (pos_len_pos []); cbn [length] in Hlen; lia|reflexivity]. }
    rewrite Hpl, <- Hlen, skipn_app_length in Sl. exact Sl.
Qed.

(** C10, "a command that extends the previous one has the same effect as setting the whole line up from scratch",
    specification side: the game of the longer line is the game of the shorter one continued by the extra tokens *)
Theorem setup_extend prev line : gui_form prev -> gui_form line -> is_continuation line prev = true ->
  setup line = match setup prev with
               | Some gp => play_strs gp (filter notmoves (fields (skipn (length prev) line)))
               | None => None
               end.
Proof.
  intros Hp Hl Hc. destruct (is_continuation_cases _ _ Hc) as [->|[rest ->]].
  - rewrite skipn_all. cbn. now destruct (setup prev).
  - rewrite skipn_app_length.
    destruct (args_extend prev rest Hp Hl) as [_ [Ef Em]].
    rewrite !setup_eq, Ef, Em. destruct (gstate_of_fen (line_fen prev)) as [g0|]; [|reflexivity].
    apply play_strs_app.
Qed.
Print Assumptions setup_extend.

(* ------------------------------------------------------------------ *)
(** * 7. the continuation branch *)

Lemma cmd_position_cont_eq z st line : d_last st <> [] -> is_continuation line (d_last st) = true ->
  cmd_position z st line =
    match play_moves z (d_eng st) (fields (skipn (length (d_last st)) line)) with
    | Some e => Running (mkD e line)
    | None => Exited
    end.
Proof.
  intros Hne Hc. unfold cmd_position. rewrite Hc. destruct (d_last st); [contradiction|reflexivity].
Qed.

Theorem position_continuation z st line gp g :
  gui_form (d_last st) -> gui_form line -> is_continuation line (d_last st) = true ->
  setup (d_last st) = Some gp -> ERel (d_eng st) gp -> EInv (d_eng st) ->
  setup line = Some g ->
  exists st', cmd_position z st line = Running st' /\
              ERel (d_eng st') g /\ EInv (d_eng st') /\ d_last st' = line.
Proof.
  intros Hp Hl Hc Hsp R I Hs.
  rewrite (cmd_position_cont_eq z st line (gui_form_nonempty _ Hp) Hc).
  rewrite (setup_extend _ _ Hp Hl Hc), Hsp in Hs.
  pose proof (play_moves_spec z (fields (skipn (length (d_last st)) line)) _ _ R I) as H.
  rewrite Hs in H. destruct H as [e' [-> [R' I']]].
  eexists. split; [reflexivity|]. cbn [d_eng d_last]. auto.
Qed.
Print Assumptions position_continuation.

(** a continuation whose extra tokens are not all legal moves makes the driver give up, as a fresh set-up would *)
Theorem position_continuation_rejects z st line gp :
  gui_form (d_last st) -> gui_form line -> is_continuation line (d_last st) = true ->
  setup (d_last st) = Some gp -> ERel (d_eng st) gp -> EInv (d_eng st) ->
  setup line = None -> cmd_position z st line = Exited.
Proof.
  intros Hp Hl Hc Hsp R I Hs.
  rewrite (cmd_position_cont_eq z st line (gui_form_nonempty _ Hp) Hc).
  rewrite (setup_extend _ _ Hp Hl Hc), Hsp in Hs.
  pose proof (play_moves_spec z (fields (skipn (length (d_last st)) line)) _ _ R I) as H.
  rewrite Hs in H. now rewrite H.
Qed.
