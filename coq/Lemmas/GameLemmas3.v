(** C05, part 3: the history of a game board as a list; hashes, legality and alternation of every node
    ([hash_consistent]), the repetition map counts hashes ([rep_map_counts]), the bounded walk of
    [identicalPositionCount] sees every earlier occurrence ([window_complete], from a potential function
    that never increases along legal moves and strictly decreases on pawn moves and captures), and
    therefore counts what the specification counts ([ipc_counts]).
    The clock saturates at [max_int] (Model/Move.v [update_noprogress]); [sep] / [window_complete] speak about
    clocks below saturation ([unsat]); every clock of a history is at most [max_int] ([hist_clk_le]). *)
From Coq Require Import NArith ZArith List Bool Lia ZifyBool ZifyNat ZifyN.
From Morlock.Model Require Import Bits Attacks Move Position Abs Zobrist Board.
From Morlock.Spec Require Import Chess Game.
From Morlock.Lemmas Require Import AttackGeometry3 PositionLemmas MoveRefines1 MoveRefines2 MoveRefines MoveGen2 MoveGen7
  BoardHeap1 BoardHeap2 GameLemmas1 GameLemmas2.
Import ListNotations.
Open Scope N_scope.

(** entries of the history list [a_data]: (position, hash, clock) *)
Definition entry := (position * N * N)%type.
Definition epos (e : entry) : position := fst (fst e).
Definition ehash (e : entry) : N := snd (fst e).
Definition eclk (e : entry) : N := snd e.

(** side to move [j] plies before a state in which [t] is to move *)
Fixpoint turn_at (t : N) (j : nat) : N := match j with O => t | S j' => turn_at (opponent t) j' end.

(** the (position, side to move) states of a history, most recent first *)
Fixpoint states (d : list entry) (t : N) : list (spos * color) :=
  match d with [] => [] | e :: r => (abs_pos (epos e), color_of t) :: states r (opponent t) end.

Definition count_hash (k : N) (d : list entry) : nat := length (filter (fun e => ehash e =? k) d).

Lemma opp_opp t : vcol t -> opponent (opponent t) = t.
Proof. intros [->| ->]; reflexivity. Qed.

Lemma turn_at_vcol t j : vcol t -> vcol (turn_at t j).
Proof. revert t. induction j as [|j IH]; intros t Ht; cbn; [exact Ht|]. apply IH, vcol_opponent. Qed.

Lemma states_nth d : forall t j e, nth_error d j = Some e ->
  nth_error (states d t) j = Some (abs_pos (epos e), color_of (turn_at t j)).
Proof.
  induction d as [|e0 r IH]; intros t [|j] e H; cbn in *; try discriminate.
  - now inversion H.
  - now apply IH.
Qed.

Lemma states_length d t : length (states d t) = length d.
Proof. revert t. induction d as [|e r IH]; intros t; cbn; [reflexivity|]. now rewrite IH. Qed.

Section History.
Variable z : ztable.

(** * the history of a played board *)
Inductive hist : list entry -> N -> Prop :=
| hist_start p t np : wf_b p t = true -> vcol t -> np <= max_int -> hist [(p, zhash z p t, np)] t
| hist_step p hs n d t m p' : hist ((p, hs, n) :: d) t -> In m (pseudo_legal_moves p t) ->
    pos_move p m = Some p' ->
    hist ((p', zhash z p' (opponent t), update_noprogress n m) :: (p, hs, n) :: d) (opponent t).

Lemma hist_head d t : hist d t ->
  vcol t /\ exists p n r, d = (p, zhash z p t, n) :: r /\ wf_b p t = true.
Proof.
  induction 1 as [p t np Hwf Ht Hnp | p hs n d t m p' H IH Hin Hmv].
  - split; [exact Ht|]. now exists p, np, [].
  - destruct IH as [Ht [q [n0 [r [E Hwf]]]]]. inversion E; subst q hs n0 r.
    split; [apply vcol_opponent|]. exists p', (update_noprogress n m), ((p, zhash z p t, n) :: d).
    split; [reflexivity|].
    exact (move_wf p t m p' (wf_inv _ _ (wf_b_WF _ _ Hwf)) Hwf Hin Hmv).
Qed.

(** 1. [hash_consistent]: every node of the history carries the hash of its position and side to move, its
    position is legal for that side, and the sides alternate ([turn_at]). *)
Theorem hash_consistent_list d t : hist d t -> forall j e, nth_error d j = Some e ->
  vcol (turn_at t j) /\ wf_b (epos e) (turn_at t j) = true /\ ehash e = zhash z (epos e) (turn_at t j).
Proof.
  induction 1 as [p t np Hwf Ht Hnp | p hs n d t m p' H IH Hin Hmv]; intros j e Hj.
  - destruct j as [|[|j]]; cbn in Hj; try discriminate. inversion Hj; subst e. cbn. auto.
  - destruct (hist_head _ _ H) as [Ht [q [n0 [r [E Hwf]]]]]. inversion E; subst q hs n0 r.
    destruct j as [|j].
    + cbn in Hj. inversion Hj; subst e. cbn [turn_at epos ehash fst snd].
      split; [apply vcol_opponent|]. split; [|reflexivity].
      exact (move_wf p t m p' (wf_inv _ _ (wf_b_WF _ _ Hwf)) Hwf Hin Hmv).
    + cbn [nth_error] in Hj. cbn [turn_at]. rewrite (opp_opp t Ht). now apply IH.
Qed.

(** every clock of the history is a Go [int]: at most [max_int] *)
Lemma hist_clk_le d t : hist d t -> forall j e, nth_error d j = Some e -> eclk e <= max_int.
Proof.
  induction 1 as [p t np Hwf Ht Hnp | p hs n d t m p' H IH Hin Hmv]; intros j e Hj.
  - destruct j as [|[|j]]; cbn in Hj; try discriminate. inversion Hj; subst e. exact Hnp.
  - destruct j as [|j].
    + cbn in Hj. inversion Hj; subst e. cbn [eclk snd]. apply update_noprogress_le.
      exact (IH 0%nat _ eq_refl).
    + cbn [nth_error] in Hj. exact (IH j e Hj).
Qed.

Lemma hist_nonempty d t : hist d t -> d <> [].
Proof. intros H. destruct (hist_head _ _ H) as [_ [p [n [r [-> _]]]]]. discriminate. Qed.

(** * the potential separates states across clock resets *)
Section Potential.
(** the potential function of [window_complete] (instantiated in GameLemmas5) *)
Variable W : position -> nat.
Hypothesis W_step : forall p t m p', wf_b p t = true -> vcol t -> In m (pseudo_legal_moves p t) ->
  pos_move p m = Some p' ->
  (W p' <= W p)%nat /\ ((mtype m =? Normal) || is_castle m = false -> (W p' < W p)%nat).
Definition sep (d : list entry) : Prop :=
  match d with
  | [] => True
  | e0 :: _ => forall j e, nth_error d j = Some e ->
      (W (epos e0) <= W (epos e))%nat /\
      (eclk e0 < max_int -> eclk e0 < N.of_nat j -> (W (epos e0) < W (epos e))%nat)
  end.

Lemma hist_sep d t : hist d t -> sep d.
Proof.
  induction 1 as [p t np Hwf Ht Hnp | p hs n d t m p' H IH Hin Hmv].
  - intros j e Hj. destruct j as [|[|j]]; cbn in Hj; try discriminate. inversion Hj; subst e.
    split; [lia|]. cbn. lia.
  - destruct (hist_head _ _ H) as [Ht [q [n0 [r [E Hwf]]]]]. inversion E; subst q hs n0 r.
    destruct (W_step p t m p' Hwf Ht Hin Hmv) as [Hle Hlt].
    cbn [sep] in IH |- *. intros j e Hj. cbn [epos eclk fst snd].
    destruct j as [|j].
    + cbn in Hj. inversion Hj; subst e. cbn [epos fst]. split; [lia|]. lia.
    + cbn [nth_error] in Hj. destruct (IH j e Hj) as [A B]. cbn [epos eclk fst snd] in A, B.
      split; [lia|]. intros Hsat Hc. unfold update_noprogress in Hsat, Hc.
      destruct ((mtype m =? Normal) || is_castle m) eqn:Ety.
      * destruct (N.eqb_spec n max_int) as [En|En]; [lia|].
        assert (Hn1 : n < max_int) by lia. assert (Hn2 : n < N.of_nat j) by lia. specialize (B Hn1 Hn2). lia.
      * specialize (Hlt eq_refl). lia.
Qed.

(** 4. [window_complete]: a node further back than the head's clock has a position different from the head's:
    the walk of [identicalPositionCount], bounded by the clock, sees every earlier occurrence.
    The clock saturates at [max_int]; a saturated clock says nothing about nodes more than [max_int] plies
    back, so either the clock is below saturation or the history has at most [max_int + 1] nodes (and then
    there is no node that far back: the walk, which also stops at the start node, sees the whole history). *)
Definition unsat (clk : N) (len : nat) : Prop := clk < max_int \/ N.of_nat len <= max_int + 1.

Theorem window_complete_list d t : hist d t -> forall e0 r j e, d = e0 :: r -> nth_error d j = Some e ->
  unsat (eclk e0) (length d) ->
  eclk e0 < N.of_nat j -> abs_pos (epos e) <> abs_pos (epos e0).
Proof.
  intros H e0 r j e E Hj Hu Hc. pose proof (hist_sep _ _ H) as S. subst d. cbn [sep] in S.
  assert (Hsat : eclk e0 < max_int).
  { destruct Hu as [Hu|Hu]; [exact Hu|].
    assert (Hjl : (j < length (e0 :: r))%nat) by (apply nth_error_Some; congruence). lia. }
  destruct (S j e Hj) as [_ B]. specialize (B Hsat Hc).
  destruct (hash_consistent_list _ _ H j e Hj) as [_ [Hw1 _]].
  destruct (hash_consistent_list _ _ H 0%nat e0 eq_refl) as [_ [Hw0 _]].
  intros Eabs. apply abs_pos_inj in Eabs; [rewrite Eabs in B; lia| |].
  - exact (wf_inv _ _ (wf_b_WF _ _ Hw1)).
  - exact (wf_inv _ _ (wf_b_WF _ _ Hw0)).
Qed.

End Potential.

(** * 5. the walk counts the occurrences *)
Section Ipc.
Variables (cpos : position) (turn limit : N).
Hypothesis Hturn : vcol turn.
Hypothesis Hcpos : Inv cpos.
Local Notation cur := (abs_pos cpos, color_of turn).

Lemma ipc_counts_list : forall l t i acc, vcol t ->
  (forall j e, nth_error l j = Some e -> Inv (epos e) /\ ehash e = zhash z (epos e) (turn_at t j)) ->
  (forall j e, nth_error l j = Some e -> limit < i + N.of_nat j ->
       same_state cur (abs_pos (epos e), color_of (turn_at t j)) = false) ->
  ipc_list true cpos (zhash z cpos turn) l t turn i limit acc =
  (acc + Z.of_nat (length (filter (same_state cur) (states l t))))%Z.
Proof.
  induction l as [|[[p hs] n] r IH]; intros t i acc Ht Hall Hwin; [cbn; lia|].
  cbn [ipc_list].
  destruct (Hall 0%nat _ eq_refl) as [HIp Ehs]. cbn [epos ehash fst snd turn_at] in HIp, Ehs.
  destruct (N.leb_spec i limit) as [Hle|Hgt].
  - cbn [states filter]. rewrite (IH (opponent t) (i + 1)); [|apply vcol_opponent| |].
    + assert (Eb : (hs =? zhash z cpos turn) && (turn =? t) && pos_eqb p cpos =
                   same_state cur (abs_pos (epos (p, hs, n)), color_of t)).
      { unfold same_state. cbn [fst snd epos]. apply AttackGeometry3.bool_eq_iff.
        rewrite !andb_true_iff, !N.eqb_eq, pos_eqb_eq, spos_eqb_eq, MoveGen2.color_eqb_eq. split.
        - intros [[_ ->] ->]. auto.
        - intros [Ea Ec]. apply color_of_inj in Ec; auto. apply abs_pos_inj in Ea; auto. subst. auto. }
      rewrite Eb. destruct (same_state cur _); cbn [length]; lia.
    + intros j e Hj. exact (Hall (S j) e Hj).
    + intros j e Hj Hlim. apply (Hwin (S j) e Hj). lia.
  - (* beyond the window: nothing further back is equal *)
    assert (Hnone : forall l' t', (forall j e, nth_error l' j = Some e ->
                same_state cur (abs_pos (epos e), color_of (turn_at t' j)) = false) ->
              filter (same_state cur) (states l' t') = []).
    { induction l' as [|e' r' IH']; intros t' Hf; [reflexivity|]. cbn [states filter].
      pose proof (Hf 0%nat e' eq_refl) as H0. cbn [turn_at] in H0. rewrite H0. apply (IH' (opponent t')). intros j e Hj. exact (Hf (S j) e Hj). }
    rewrite Hnone; [cbn; lia|].
    intros j e Hj. apply (Hwin j e Hj). lia.
Qed.

(** every equal state carries the hash of the current one: the repetition map never under-counts *)
Lemma same_le_hash : forall l t, vcol t ->
  (forall j e, nth_error l j = Some e -> Inv (epos e) /\ ehash e = zhash z (epos e) (turn_at t j)) ->
  (length (filter (same_state cur) (states l t)) <= count_hash (zhash z cpos turn) l)%nat.
Proof.
  induction l as [|[[p hs] n] r IH]; intros t Ht Hall; [cbn; lia|].
  unfold count_hash in *. cbn [states filter].
  destruct (Hall 0%nat _ eq_refl) as [HIp Ehs]. cbn [epos ehash fst snd turn_at] in HIp, Ehs.
  specialize (IH (opponent t) (vcol_opponent t) (fun j e Hj => Hall (S j) e Hj)).
  cbn [ehash fst snd].
  destruct (same_state cur (abs_pos (epos (p, hs, n)), color_of t)) eqn:Es.
  - apply same_state_eq in Es. assert (Ea := f_equal fst Es). assert (Ec := f_equal snd Es).
    cbn [fst snd epos] in Ea, Ec. clear Es.
    apply color_of_inj in Ec; auto. apply abs_pos_inj in Ea; auto. subst p t.
    rewrite Ehs, N.eqb_refl. cbn [length]. lia.
  - destruct (hs =? zhash z cpos turn); cbn [length]; lia.
Qed.
End Ipc.

End History.
