(** * Trace acceptor of Model/Driver.v: paths of the acceptor ([mpath]: prefix form of [accepts]) and
      the count form: every accepted trace satisfies [obs_counts_ok]. *)
From Coq Require Import List Bool Arith PeanoNat Lia.
From Morlock.Model Require Import Driver.
From Morlock.Lemmas Require Import DriverTrace1.
Import ListNotations.

(** ** Paths: the acceptor can go from [c] to [c'] reading [obs] *)
Inductive mpath : cfg -> list obs_line -> cfg -> Prop :=
| mp_refl : forall c, mpath c [] c
| mp_eps : forall c c' obs c'', In c' (cfg_eps c) -> mpath c' obs c'' -> mpath c obs c''
| mp_obs : forall c c' o obs c'', In c' (cfg_obs o c) -> mpath c' obs c'' -> mpath c (o :: obs) c''.

Lemma mpath_trans : forall a o1 b o2 c, mpath a o1 b -> mpath b o2 c -> mpath a (o1 ++ o2) c.
Proof.
  intros a o1 b o2 c H. induction H; intros H2; simpl; auto.
  - eapply mp_eps; eauto.
  - eapply mp_obs; eauto.
Qed.

Lemma mpath_accepts : forall c obs l, mpath c obs (l, MExited) -> accepts c obs.
Proof.
  intros c obs l H. remember (l, MExited) as e eqn:E. induction H; subst.
  - apply acc_end.
  - eapply acc_eps; eauto.
  - eapply acc_obs; eauto.
Qed.

Lemma accepts_mpath : forall c obs, accepts c obs -> exists l, mpath c obs (l, MExited).
Proof.
  intros c obs A. induction A.
  - exists l. apply mp_refl.
  - destruct IHA as [l H']. exists l. eapply mp_eps; eauto.
  - destruct IHA as [l H']. exists l. eapply mp_obs; eauto.
Qed.

(** ** Counting *)

Definition owed_best (m : mon) : nat := match m with MPending | MMustBest => 1 | _ => 0 end.

(* what a configuration still allows: number of readyok lines exactly, bestmove lines at most *)
Definition ready_budget (c : cfg) : nat :=
  match snd c with MExited => 0 | _ => count_cmd is_isready (effective (fst c)) end.
Definition best_budget (c : cfg) : nat :=
  match snd c with MExited => 0 | m => count_cmd is_go (effective (fst c)) + owed_best m end.

Lemma count_obs_cons : forall o x l,
  count_obs o (x :: l) =
  (match o, x with OReady, OReady | OInfo, OInfo | OBest, OBest => 1 | _, _ => 0 end) + count_obs o l.
Proof. intros o x l. unfold count_obs. simpl. destruct o, x; reflexivity. Qed.

Lemma eps_budget : forall c c', In c' (cfg_eps c) ->
  ready_budget c' = ready_budget c /\ best_budget c' <= best_budget c.
Proof.
  intros [l m] c' H. unfold ready_budget, best_budget.
  destruct l as [|x r]; [|destruct x as [| |[]| | | | | |]]; destruct m; simpl in H;
    try contradiction; destruct H as [<-|[]]; unfold count_cmd; simpl;
    split; try reflexivity; try lia.
Qed.

Lemma obs_budget : forall o c c', In c' (cfg_obs o c) ->
  ready_budget c = (match o with OReady => 1 | _ => 0 end) + ready_budget c'
  /\ (match o with OBest => 1 | _ => 0 end) + best_budget c' <= best_budget c.
Proof.
  intros o [l m] c' H. unfold ready_budget, best_budget.
  destruct o; (destruct l as [|x r]; [|destruct x as [| |[]| | | | | |]]); destruct m; simpl in H;
    try contradiction; destruct H as [<-|[]]; unfold count_cmd; simpl;
    split; try reflexivity; try lia.
Qed.

Lemma accepts_counts : forall c obs, accepts c obs ->
  count_obs OReady obs = ready_budget c /\ count_obs OBest obs <= best_budget c.
Proof.
  intros c obs A. induction A.
  - split; reflexivity.
  - destruct IHA as [I1 I2]. destruct (eps_budget c c' H) as [E1 E2]. split; [congruence|lia].
  - destruct IHA as [I1 I2]. destruct (obs_budget o c c' H) as [E1 E2].
    rewrite !count_obs_cons. destruct o; simpl in *; split; lia.
Qed.

(** every trace the acceptor accepts satisfies the count form *)
Theorem accepts_counts_ok : forall script obs, accepts (script, MNone) obs -> obs_counts_ok script obs = true.
Proof.
  intros script obs A. destruct (accepts_counts _ _ A) as [H1 H2].
  unfold ready_budget, best_budget in *. simpl in *.
  unfold obs_counts_ok. apply andb_true_iff. split.
  - apply Nat.eqb_eq. exact H1.
  - apply Nat.leb_le. lia.
Qed.

(** the count form is weaker than the acceptor *)
Corollary obs_ok_counts_ok : forall script obs, obs_ok script obs = true -> obs_counts_ok script obs = true.
Proof. intros script obs H. apply accepts_counts_ok. now apply obs_ok_accepts. Qed.

Print Assumptions obs_ok_counts_ok.
