(** C05, part 4: one PushMove refines one [g_play] step of the specification game, and the result reported
    by the board is the one the specification's draw conditions prescribe ([push_refines] on the list view
    [aboard] of BoardHeap1; lifted to heap boards in GameLemmas6).
    The clock of the board is the specification's clock capped at [max_int] ([clk_rel]); the result reported
    is the specification's for every clock: below saturation the recount is exact, at saturation the fifty-move
    rule overwrites it on both sides. *)
From Coq Require Import NArith ZArith List Bool Lia ZifyBool ZifyNat ZifyN.
From Morlock.Model Require Import Bits Attacks Move Position Abs Zobrist Board.
From Morlock.Spec Require Import Chess Game.
From Morlock.Lemmas Require Import AttackGeometry3 PositionLemmas MoveRefines1 MoveRefines2 MoveRefines4 MoveRefines
  MoveGen2 MoveGen3 MoveGen7 MoveGen11 BoardHeap1 BoardHeap2 ZobristLemmas3 GameLemmas1 GameLemmas2 GameLemmas3.
Import ListNotations.
Open Scope N_scope.

(** * the insufficient-material trigger *)

Lemma promo_major sp c sm c0 pk : at_ (brd sp) (sfrom sm) = Some (c0, P) -> is_ep_move sp sm = false ->
  spromo sm = Some pk -> (sto sm < length (brd sp))%nat ->
  at_ (brd (apply_move sp c sm)) (sto sm) = Some (c, pk).
Proof.
  intros Hat Hep Hpr Hlt. unfold apply_move. rewrite Hat, Hep, Hpr.
  unfold is_castling_move. rewrite Hat. cbn [brd]. unfold at_.
  rewrite set_cell_nth by (now rewrite length_set_cell). now rewrite Nat.eqb_refl.
Qed.

Definition trigger (m : move) : bool :=
  (mtype m =? Capture) ||
  (((mtype m =? CapturePromotion) || (mtype m =? Promotion)) && ((mpromo m =? Bishop) || (mpromo m =? Knight))).

Lemma insuff_trigger p t m p' : wf_b p t = true -> vcol t -> In m (pseudo_legal_moves p t) ->
  pos_move p m = Some p' ->
  trigger m && has_insufficient_material p' =
  (occupied (brd (abs_pos p)) (sto (abs_move m)) || s_is_underpromotion (abs_move m)) &&
  insufficient (brd (apply_move (abs_pos p) (color_of t) (abs_move m))).
Proof.
  intros Hwf Ht Hin Hmv.
  pose proof (wf_inv _ _ (wf_b_WF _ _ Hwf)) as HI.
  pose proof (move_wf p t m p' HI Hwf Hin Hmv) as Hwf'.
  rewrite (insufficient_iff_wf p' _ Hwf'), (move_refines p t m p' HI Hwf Hin Hmv).
  set (sp := abs_pos p). set (sm := abs_move m). set (c := color_of t).
  set (ins := insufficient (brd (apply_move sp c sm))).
  pose proof (pseudo_shape p t m Hwf Hin) as Hsh.
  pose proof (sh_to _ _ _ Hsh) as Hto.
  assert (Hocc : occupied (brd sp) (sto sm) = match square p (mto m) with Some _ => true | None => false end).
  { unfold sp, sm. cbn [abs_move sto]. now apply MoveRefines1.occupied_abs. }
  destruct (from_cell p t m Hwf Ht Hin) as [k [Eat Epc]]. fold sp sm c in Eat.
  assert (Hmajor : forall pk, mpiece m = Pawn -> mtype m <> EnPassant -> spromo sm = Some pk ->
                     pk = Q \/ pk = R -> ins = false).
  { intros pk Hpawn Hnep Hpr Hpk.
    assert (k = P) by (apply code_of_kind_inj; rewrite <- Epc; exact Hpawn). subst k.
    assert (Hep : is_ep_move sp sm = false).
    { destruct (is_ep_move sp sm) eqn:E; [|reflexivity].
      destruct (F_ep p t m Hwf Ht Hin E) as [T _]. contradiction. }
    assert (Hlen : (sto sm < length (brd sp))%nat).
    { unfold sp. rewrite length_abs_brd. unfold sm. cbn [abs_move sto]. lia. }
    pose proof (promo_major sp c sm c pk Eat Hep Hpr Hlen) as Hat.
    unfold ins. eapply insufficient_major; [|exact Hat|tauto].
    unfold sm. cbn [abs_move sto]. lia. }
  unfold trigger. unfold s_is_underpromotion.
  assert (Hspromo : exists pr, spromo sm = pr /\ pr = if is_promotion m then kind_of (mpromo m) else None)
    by (eexists; split; reflexivity).
  destruct Hspromo as [pr [Epr Hspromo]]. rewrite Epr.
  assert (Hmajor' : forall pk, mpiece m = Pawn -> mtype m <> EnPassant -> pr = Some pk ->
                     pk = Q \/ pk = R -> ins = false).
  { intros pk A B C D. apply (Hmajor pk A B); [now rewrite Epr|exact D]. }
  clear Hmajor Epr.
  destruct (sh_kind _ _ _ Hsh) as [Hty Hvpc Hnp Hd Hks | Hty Hvpc Hd Hnk Hks Hpw | Hty Hpc Hd Hrel Hlr | Hty Hpc Hd Hrel Hmid
               | Hty Hpc Hd Hrel Hlr Hoff | Hty Hpc Hd Hnk Hrel Hlr Hoff | Hty Hpc Hte Hne Hd Hrel Hrk Hcap
               | Hty Hpc Hfr Htoe H1 H2 H3 | Hty Hpc Hfr Htoe H1 H2 H3];
    unfold is_promotion in Hspromo; rewrite Hty in Hspromo |- *;
    cbn [N.eqb Pos.eqb Normal Push Jump EnPassant QueenSideCastle KingSideCastle Capture Promotion CapturePromotion orb andb] in Hspromo |- *.
  - rewrite Hocc, Hd, Hspromo. reflexivity.
  - rewrite Hocc, Hd. reflexivity.
  - rewrite Hocc, Hd, Hspromo. reflexivity.
  - rewrite Hocc, Hd, Hspromo. reflexivity.
  - (* promotion *) rewrite Hocc, Hd. cbn [orb].
    assert (Hne : mtype m <> EnPassant) by (rewrite Hty; discriminate).
    destruct Hoff as [E|[E|[E|E]]]; rewrite E in Hspromo |- *; cbn in Hspromo; rewrite Hspromo; cbn.
    + reflexivity.
    + symmetry. apply (Hmajor' R Hpc Hne Hspromo). tauto.
    + reflexivity.
    + reflexivity.
  - (* capture promotion *) rewrite Hocc, Hd. cbn [orb].
    assert (Hne : mtype m <> EnPassant) by (rewrite Hty; discriminate).
    destruct Hoff as [E|[E|[E|E]]]; rewrite E in Hspromo |- *; cbn in Hspromo; cbn.
    + symmetry. apply (Hmajor' Q Hpc Hne Hspromo). tauto.
    + symmetry. apply (Hmajor' R Hpc Hne Hspromo). tauto.
    + reflexivity.
    + reflexivity.
  - rewrite Hocc, Hd, Hspromo. reflexivity.
  - rewrite Hocc, Htoe, H1, Hspromo. reflexivity.
  - rewrite Hocc, Htoe, H1, Hspromo. reflexivity.
Qed.

(** * the result prescribed by the draw conditions: applied in the order repetition, no progress,
    insufficient material; the last applicable one is reported *)
Definition reason_of (d : draw_reason) : reason :=
  match d with DrawRep3 => Repetition3 | DrawRep5 => Repetition5 | DrawNoProgress => NoProgress
             | DrawInsufficient => InsufficientMaterial end.
Definition result_after (now : list draw_reason) (old : result) : result :=
  fold_left (fun _ d => mkResult Draw (reason_of d)) now old.

Lemma result_after_nil old : result_after [] old = old. Proof. reflexivity. Qed.
(** only the last condition matters: whatever precedes [d] is overwritten *)
Lemma result_after_last l1 d l2 old old' : result_after (l1 ++ d :: l2) old = result_after (d :: l2) old'.
Proof. unfold result_after. rewrite fold_left_app. reflexivity. Qed.
Lemma result_after_draw now old : now <> [] -> outcome (result_after now old) = Draw.
Proof.
  intros H. destruct (exists_last H) as [l [d ->]]. unfold result_after. rewrite fold_left_app. reflexivity.
Qed.

Definition apush := apush_with zmove update_noprogress true has_insufficient_material.

Section Step.
Variable z : ztable.
Hypothesis Hzt : zt_ok z.
Variable W : position -> nat.
Hypothesis W_step : forall p t m p', wf_b p t = true -> vcol t -> In m (pseudo_legal_moves p t) ->
  pos_move p m = Some p' ->
  (W p' <= W p)%nat /\ ((mtype m =? Normal) || is_castle m = false -> (W p' < W p)%nat).

(** invariant of the list view of a played board *)
Definition AInv (a : aboard) : Prop :=
  hist z (a_data a) (a_turn a) /\
  forall k, rep_get (a_reps a) k = Z.of_nat (count_hash k (a_data a)).

(** refinement relation between (the list view of) a board and a specification game.  The clock of the
    board is the (unbounded) clock of the specification capped at [max_int] ([clk_rel], GameLemmas2): the
    Go counter saturates at math.MaxInt. *)
Definition ARel (a : aboard) (g : gstate) : Prop :=
  states (a_data a) (a_turn a) = (g_pos g, g_turn g) :: g_past g /\
  clk_rel (a_noprogress a) (g_clock g) /\
  a_moves a = g_fullmove g.

Lemma ARel_clock a g : ARel a g -> Z.of_N (a_noprogress a) = Z.min (g_clock g) (Z.of_N max_int).
Proof. intros (_ & H & _). exact H. Qed.
Lemma ARel_clock_exact a g : ARel a g -> (g_clock g <= Z.of_N max_int)%Z -> Z.of_N (a_noprogress a) = g_clock g.
Proof. intros (_ & H & _). now apply clk_rel_exact. Qed.

Theorem apush_step a g m a1 : AInv a -> ARel a g -> In m (pseudo_legal_moves (a_position a) (a_turn a)) ->
  apush z a m = (a1, true) ->
  AInv a1 /\ ARel a1 (g_play g (abs_move m)) /\
  a_result a1 = result_after (g_now (g_play g (abs_move m))) (a_result a) /\
  (* 3. rep_map_counts / 5. ipc_counts, for the node just pushed *)
  rep_get (a_reps a1) (a_hash a1) = Z.of_nat (count_hash (a_hash a1) (a_data a1)) /\
  (unsat (a_noprogress a1) (length (a_data a1)) ->
   ipc_list true (a_position a1) (a_hash a1) (a_data a) (a_turn a) (a_turn a1) 1 (a_noprogress a1) 1 =
    occurrences (g_pos (g_play g (abs_move m)), g_turn (g_play g (abs_move m))) (g_past (g_play g (abs_move m)))).
Proof.
  intros [Hh Hreps] [Hst [Hclk Hfm]] Hin Hpush.
  destruct a as [reps cw cb ply moves t res data nexts].
  cbn [a_data a_turn a_reps a_moves a_result] in *.
  destruct (hist_head z _ _ Hh) as [Ht [p [n [d [-> Hwf]]]]].
  unfold a_position, a_noprogress in Hin, Hclk. cbn [a_data hd fst snd] in Hin, Hclk.
  pose proof (wf_inv _ _ (wf_b_WF _ _ Hwf)) as HI.
  unfold apush, apush_with in Hpush. unfold a_position, a_hash, a_noprogress in Hpush.
  cbn [a_data a_turn a_reps a_moves a_result a_cw a_cb a_ply a_nexts hd fst snd] in Hpush.
  destruct (blocked res); [discriminate|].
  destruct (pos_move p m) as [next|] eqn:Hmv; [|discriminate].
  rewrite (zobrist_incremental z p t m next Hzt Hwf Hin Hmv) in Hpush.
  set (nh := zhash z next (opponent t)) in *.
  set (nnp := update_noprogress n m) in *.
  set (reps' := rep_set reps nh (rep_get reps nh + 1)%Z) in *.
  pose proof (move_wf p t m next HI Hwf Hin Hmv) as Hwf'.
  pose proof (wf_inv _ _ (wf_b_WF _ _ Hwf')) as HI'.
  pose proof (move_refines p t m next HI Hwf Hin Hmv) as Href.
  pose proof (hist_step z p (zhash z p t) n d t m next Hh Hin Hmv) as Hh'. fold nh nnp in Hh'.
  (* specification side *)
  destruct g as [gp gt gc gf gpast gd gn]. cbn [g_pos g_turn g_past g_clock g_fullmove] in *.
  cbn [states epos fst] in Hst. inversion Hst as [[Egp Egt Egpast]]. clear Hst. subst gp gt gpast. set (gpast := states d (opponent t)) in *.
  set (sm := abs_move m) in *. set (sp := abs_pos p) in *. set (c := color_of t) in *.
  assert (Ec' : color_of (opponent t) = other c) by (apply color_of_vcol; exact Ht).
  assert (Hclk' : clk_rel nnp (if is_capture_move sp sm || is_pawn_move sp sm then 0 else gc + 1)%Z).
  { unfold nnp. exact (clock_spec_Z p t m n gc Hwf Ht Hin Hclk). }
  (* the new history and its states *)
  assert (Hst' : states ((next, nh, nnp) :: (p, zhash z p t, n) :: d) (opponent t) =
                 (apply_move sp c sm, other c) :: (sp, c) :: gpast).
  { cbn [states epos fst]. rewrite (opp_opp t Ht), Href, Ec'. reflexivity. }
  (* occurrences *)
  assert (Hall : forall j e, nth_error ((p, zhash z p t, n) :: d) j = Some e ->
                   Inv (epos e) /\ ehash e = zhash z (epos e) (turn_at t j)).
  { intros j e Hj. destruct (hash_consistent_list z _ _ Hh j e Hj) as [_ [A B]].
    split; [exact (wf_inv _ _ (wf_b_WF _ _ A))|exact B]. }
  assert (Hwin : unsat nnp (length ((next, nh, nnp) :: (p, zhash z p t, n) :: d)) ->
             forall j e, nth_error ((p, zhash z p t, n) :: d) j = Some e -> nnp < 1 + N.of_nat j ->
             same_state (abs_pos next, color_of (opponent t)) (abs_pos (epos e), color_of (turn_at t j)) = false).
  { intros Hu j e Hj Hlim.
    destruct (same_state _ _) eqn:Es; [|reflexivity]. exfalso.
    apply same_state_eq in Es. assert (Ea := f_equal fst Es). cbn [fst] in Ea.
    refine (window_complete_list z W W_step _ _ Hh' (next, nh, nnp) _ (S j) e eq_refl Hj Hu _ (eq_sym Ea)).
    cbn [eclk snd]. lia. }
  pose proof (fun Hu => ipc_counts_list z next (opponent t) nnp (vcol_opponent t) HI' _ t 1 1%Z Ht Hall (Hwin Hu)) as Hipc.
  fold nh in Hipc. cbn [states epos fst] in Hipc. fold gpast in Hipc.
  pose proof (same_le_hash z next (opponent t) (vcol_opponent t) HI' _ t Ht Hall) as Hle.
  fold nh in Hle. cbn [states epos fst] in Hle. fold gpast in Hle.
  rewrite Href, Ec' in Hipc, Hle. fold sp c in Hipc, Hle.
  set (occ := occurrences (apply_move sp c sm, other c) ((sp, c) :: gpast)).
  set (actual := ipc_list true next nh ((p, zhash z p t, n) :: d) t (opponent t) 1 nnp 1) in *.
  assert (Hocc : unsat nnp (length ((next, nh, nnp) :: (p, zhash z p t, n) :: d)) -> actual = occ).
  { intros Hu. rewrite (Hipc Hu). unfold occ, occurrences. reflexivity. }
  assert (Hrep' : rep_get reps' nh = Z.of_nat (count_hash nh ((next, nh, nnp) :: (p, zhash z p t, n) :: d))).
  { unfold reps'. rewrite rep_get_set, N.eqb_refl, Hreps. unfold count_hash. cbn [filter ehash fst snd].
    rewrite N.eqb_refl. cbn [length]. lia. }
  assert (Hgate : (occ <= rep_get reps' nh)%Z).
  { rewrite Hrep'. unfold occ, occurrences, count_hash in *. cbn [filter ehash fst snd] in *.
    rewrite N.eqb_refl. cbn [length]. lia. }
  (* assemble *)
  rewrite (opp_opp t Ht) in Hpush. fold actual in Hpush.
  inversion Hpush as [Ea1]. clear Hpush. unfold AInv, ARel.
  cbn [a_data a_turn a_reps a_moves a_result a_position a_hash a_noprogress hd fst snd].
  unfold a_position, a_hash, a_noprogress. cbn [a_data hd fst snd].
  split; [|split; [|split; [|split]]].
  - (* invariant *) split; [exact Hh'|].
    intros k. unfold reps'. rewrite rep_get_set, !Hreps. unfold count_hash.
    change (filter (fun e : entry => ehash e =? k) ((next, nh, nnp) :: (p, zhash z p t, n) :: d))
      with (if nh =? k then (next, nh, nnp) :: filter (fun e : entry => ehash e =? k) ((p, zhash z p t, n) :: d)
            else filter (fun e : entry => ehash e =? k) ((p, zhash z p t, n) :: d)).
    destruct (N.eqb_spec nh k) as [E|Hne].
    + rewrite <- E. cbn [length]. lia.
    + reflexivity.
  - (* refinement *) unfold g_play. cbn [g_pos g_turn g_past g_clock g_fullmove a_data a_turn a_moves].
    unfold a_noprogress. cbn [a_data hd snd]. fold sp c sm.
    split; [exact Hst'|]. split; [exact Hclk'|].
    rewrite Hfm. unfold c, color_of, opponent, White, Black. destruct Ht as [->| ->]; reflexivity.
  - (* result *) unfold g_play. cbn [g_pos g_turn g_past g_clock g_fullmove g_now]. fold sp c sm. fold occ.
    pose proof (insuff_trigger p t m next Hwf Ht Hin Hmv) as Hins. unfold trigger in Hins. fold sp c sm in Hins.
    set (INS := (occupied (brd sp) (sto sm) || s_is_underpromotion sm) && insufficient (brd (apply_move sp c sm))) in *.
    pose proof (clk_rel_limit _ _ Hclk') as Hnp. rewrite Hnp.
    set (T := (mtype m =? Capture) || ((mtype m =? CapturePromotion) || (mtype m =? Promotion)) && ((mpromo m =? Bishop) || (mpromo m =? Knight))) in *.
    set (clock' := (if is_capture_move sp sm || is_pawn_move sp sm then 0 else gc + 1)%Z) in *.
    destruct (N.ltb_spec nnp max_int) as [Hsat|Hsat].
    + (* below saturation: the recount is exact *)
      rewrite (Hocc (or_introl Hsat)).
      destruct (Z.leb_spec 3 (rep_get reps' nh)) as [G3|G3];
      destruct (Z.leb_spec 5 occ) as [O5|O5]; destruct (Z.leb_spec 3 occ) as [O3|O3]; try lia;
      destruct (100 <=? clock')%Z;
      destruct T; cbn [andb] in Hins; try (rewrite Hins); try (rewrite <- Hins);
      try (destruct (has_insufficient_material next)); reflexivity.
    + (* saturated clock: the fifty-move rule fires and overwrites whatever the recount said *)
      assert (H100 : (100 <=? clock')%Z = true).
      { rewrite <- Hnp. unfold noprogressPlyLimit. apply N.leb_le.
        assert (M : 100 <= max_int) by (vm_compute; discriminate). lia. }
      rewrite H100.
      destruct (3 <=? rep_get reps' nh)%Z; destruct (5 <=? actual)%Z; destruct (3 <=? actual)%Z;
      destruct (5 <=? occ)%Z; destruct (3 <=? occ)%Z;
      destruct T; cbn [andb] in Hins; try (rewrite Hins); try (rewrite <- Hins);
      try (destruct (has_insufficient_material next)); reflexivity.
  - (* rep_map_counts *) exact Hrep'.
  - (* ipc_counts *) unfold g_play. cbn [g_pos g_turn g_past]. fold sp c sm. exact Hocc.
Qed.

End Step.
