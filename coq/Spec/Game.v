(** S2 — a game: start state plus a sequence of moves; repetition, fifty-move and
    insufficient-material draws as the rules (and property C05) state them. *)
From Coq Require Import ZArith List Bool Arith.
From Morlock.Spec Require Import Chess.
Import ListNotations.
Open Scope Z_scope.

Inductive draw_reason := DrawRep3 | DrawRep5 | DrawNoProgress | DrawInsufficient.

Record gstate := mkG {
  g_pos : spos;
  g_turn : color;
  g_clock : Z;                      (* half-moves since the last pawn move or capture *)
  g_fullmove : Z;
  g_past : list (spos * color);     (* earlier states of the game, most recent first, start included *)
  g_drawn : bool;                   (* some draw condition has held at or before this point *)
  g_now : list draw_reason          (* the conditions that hold for the position just reached *)
}.

Definition g_start (p : spos) (c : color) (clock fullmove : Z) : gstate :=
  mkG p c clock fullmove [] false [].

Definition same_state (a b : spos * color) : bool :=
  spos_eqb (fst a) (fst b) && color_eqb (snd a) (snd b).

(** number of times the current state has occurred in the game, itself included *)
Definition occurrences (cur : spos * color) (past : list (spos * color)) : Z :=
  1 + Z.of_nat (length (filter (same_state cur) past)).

(** K v K, K + minor v K, kings + two bishops standing on squares of one colour *)
Definition non_king_pieces (b : mboard) : list (nat * kind) :=
  flat_map (fun s => match at_ b s with
                     | Some (_, K) => []
                     | Some (_, k) => [(s, k)]
                     | None => []
                     end) all_squares.
Definition square_colour (s : nat) : Z := (file_of s + rank_of s) mod 2.
Definition insufficient (b : mboard) : bool :=
  match non_king_pieces b with
  | [] => true
  | [(_, Kn)] | [(_, Bi)] => true
  | [(s1, Bi); (s2, Bi)] => square_colour s1 =? square_colour s2
  | _ => false
  end.

Definition is_capture_move (p : spos) (m : smove) : bool := occupied (brd p) (sto m) || is_ep_move p m.
Definition is_pawn_move (p : spos) (m : smove) : bool :=
  match at_ (brd p) (sfrom m) with Some (_, P) => true | _ => false end.
Definition s_is_underpromotion (m : smove) : bool :=
  match spromo m with Some Q => false | Some _ => true | None => false end.

Definition g_play (g : gstate) (m : smove) : gstate :=
  let p := g_pos g in let c := g_turn g in
  let p' := apply_move p c m in
  let c' := other c in
  let clock := if is_capture_move p m || is_pawn_move p m then 0 else g_clock g + 1 in
  let past := (p, c) :: g_past g in
  let occ := occurrences (p', c') past in
  let now := (if 5 <=? occ then [DrawRep5] else if 3 <=? occ then [DrawRep3] else [])
             ++ (if 100 <=? clock then [DrawNoProgress] else [])
             ++ (if (occupied (brd p) (sto m) || s_is_underpromotion m) && insufficient (brd p') then [DrawInsufficient] else []) in
  mkG p' c' clock (match c with Bl => g_fullmove g + 1 | Wh => g_fullmove g end) past
      (g_drawn g || match now with [] => false | _ => true end) now.

Definition g_play_all (g : gstate) (ms : list smove) : gstate := fold_left g_play ms g.
