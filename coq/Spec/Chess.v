(** S1 — the rules of chess on a mailbox board, written independently of the bitboard model.
    Squares are numbered as in the code (h1 = 0, g1 = 1, ..., a1 = 7, h2 = 8, ..., a8 = 63), i.e.
    square = 8 * rank + file with rank 0..7 for ranks 1..8 and file 0..7 for files h..a.
    Geometry is done on (file, rank) in Z x Z. *)
From Coq Require Import ZArith List Bool Arith.
Import ListNotations.
Open Scope Z_scope.

Inductive color := Wh | Bl.
Inductive kind := P | Bi | Kn | R | Q | K.

Definition color_eqb (a b : color) : bool := match a, b with Wh, Wh | Bl, Bl => true | _, _ => false end.
Definition kind_eqb (a b : kind) : bool :=
  match a, b with P, P | Bi, Bi | Kn, Kn | R, R | Q, Q | K, K => true | _, _ => false end.
Definition other (c : color) : color := match c with Wh => Bl | Bl => Wh end.

Definition cell := option (color * kind).
Definition mboard := list cell.     (* 64 cells *)

Record rights := mkRights { wk : bool; wq : bool; bk : bool; bq : bool }.
Record spos := mkSpos { brd : mboard; rts : rights; eps : option nat }.

(** coordinates *)
Definition on_board (f r : Z) : bool := (0 <=? f) && (f <? 8) && (0 <=? r) && (r <? 8).
Definition sq_of (f r : Z) : nat := Z.to_nat (8 * r + f).
Definition file_of (s : nat) : Z := Z.of_nat s mod 8.
Definition rank_of (s : nat) : Z := Z.of_nat s / 8.
Definition at_ (b : mboard) (s : nat) : cell := nth s b None.
Definition at_fr (b : mboard) (f r : Z) : cell := if on_board f r then at_ b (sq_of f r) else None.

(** named squares: files a..h are 7..0 *)
Definition e1 := sq_of 3 0. Definition g1 := sq_of 1 0. Definition c1 := sq_of 5 0. Definition f1 := sq_of 2 0.
Definition d1 := sq_of 4 0. Definition b1 := sq_of 6 0. Definition h1 := sq_of 0 0. Definition a1 := sq_of 7 0.
Definition e8 := sq_of 3 7. Definition g8 := sq_of 1 7. Definition c8 := sq_of 5 7. Definition f8 := sq_of 2 7.
Definition d8 := sq_of 4 7. Definition b8 := sq_of 6 7. Definition h8 := sq_of 0 7. Definition a8 := sq_of 7 7.

Definition all_squares : list nat := seq 0 64.

Definition knight_offsets : list (Z * Z) := [(1,2);(2,1);(2,-1);(1,-2);(-1,-2);(-2,-1);(-2,1);(-1,2)].
Definition king_offsets : list (Z * Z) := [(1,0);(1,1);(0,1);(-1,1);(-1,0);(-1,-1);(0,-1);(1,-1)].
Definition rook_dirs : list (Z * Z) := [(1,0);(-1,0);(0,1);(0,-1)].
Definition bishop_dirs : list (Z * Z) := [(1,1);(1,-1);(-1,1);(-1,-1)].

(** squares reached from (f,r) walking in direction (df,dr): every empty square, then the first
    occupied one (inclusive).  [occ] says which squares are occupied. *)
Fixpoint ray (occ : nat -> bool) (f r df dr : Z) (fuel : nat) : list nat :=
  match fuel with
  | O => []
  | S n =>
    let f' := f + df in let r' := r + dr in
    if on_board f' r' then
      let s := sq_of f' r' in
      if occ s then [s] else s :: ray occ f' r' df dr n
    else []
  end.

Definition occupied (b : mboard) (s : nat) : bool := match at_ b s with Some _ => true | None => false end.

(** squares a piece of the given kind standing on [s] attacks, given the occupancy.
    Pawns: the two forward diagonals of their colour. *)
Definition step_targets (s : nat) (offs : list (Z * Z)) : list nat :=
  flat_map (fun o => let f := file_of s + fst o in let r := rank_of s + snd o in
                     if on_board f r then [sq_of f r] else []) offs.
Definition slide_targets (occ : nat -> bool) (s : nat) (dirs : list (Z * Z)) : list nat :=
  flat_map (fun d => ray occ (file_of s) (rank_of s) (fst d) (snd d) 7) dirs.
Definition pawn_dir (c : color) : Z := match c with Wh => 1 | Bl => -1 end.
Definition attacks_from (occ : nat -> bool) (c : color) (k : kind) (s : nat) : list nat :=
  match k with
  | Kn => step_targets s knight_offsets
  | K => step_targets s king_offsets
  | R => slide_targets occ s rook_dirs
  | Bi => slide_targets occ s bishop_dirs
  | Q => slide_targets occ s (rook_dirs ++ bishop_dirs)
  | P => step_targets s [(1, pawn_dir c); (-1, pawn_dir c)]
  end.

Definition mem_nat (x : nat) (l : list nat) : bool := existsb (Nat.eqb x) l.

(** is square [t] attacked by a piece of colour [by]? *)
Definition attacked (b : mboard) (by_ : color) (t : nat) : bool :=
  existsb (fun s => match at_ b s with
                    | Some (c, k) => color_eqb c by_ && mem_nat t (attacks_from (occupied b) c k s)
                    | None => false
                    end) all_squares.

Definition king_square (b : mboard) (c : color) : option nat :=
  find (fun s => match at_ b s with Some (c', K) => color_eqb c c' | _ => false end) all_squares.
Definition in_check (b : mboard) (c : color) : bool :=
  match king_square b c with Some s => attacked b (other c) s | None => false end.

(** moves are identified by origin, destination and promotion piece *)
Record smove := mkSmove { sfrom : nat; sto : nat; spromo : option kind }.
Definition okind_eqb (a b : option kind) : bool :=
  match a, b with None, None => true | Some x, Some y => kind_eqb x y | _, _ => false end.
Definition smove_eqb (a b : smove) : bool :=
  Nat.eqb (sfrom a) (sfrom b) && Nat.eqb (sto a) (sto b) && okind_eqb (spromo a) (spromo b).

Definition is_color (b : mboard) (c : color) (s : nat) : bool :=
  match at_ b s with Some (c', _) => color_eqb c c' | None => false end.

Definition last_rank (c : color) : Z := match c with Wh => 7 | Bl => 0 end.
Definition start_rank (c : color) : Z := match c with Wh => 1 | Bl => 6 end.
Definition promo_kinds : list kind := [Q; R; Kn; Bi].

Definition pawn_moves_to (c : color) (s t : nat) : list smove :=
  if rank_of t =? last_rank c then map (fun k => mkSmove s t (Some k)) promo_kinds else [mkSmove s t None].

(** candidate moves of the piece on [s] (ignoring check): *)
Definition piece_moves (p : spos) (c : color) (k : kind) (s : nat) : list smove :=
  let b := brd p in
  match k with
  | P =>
    let f := file_of s in let r := rank_of s in let d := pawn_dir c in
    let push1 := if on_board f (r + d) && negb (occupied b (sq_of f (r + d))) then pawn_moves_to c s (sq_of f (r + d)) else [] in
    let push2 := if (r =? start_rank c) && negb (occupied b (sq_of f (r + d))) && negb (occupied b (sq_of f (r + 2 * d)))
                 then [mkSmove s (sq_of f (r + 2 * d)) None] else [] in
    let caps := flat_map (fun t =>
                  if is_color b (other c) t then pawn_moves_to c s t
                  else match eps p with
                       | Some e => if Nat.eqb e t then [mkSmove s t None] else []
                       | None => []
                       end)
                (attacks_from (occupied b) c P s) in
    push1 ++ push2 ++ caps
  | _ => map (fun t => mkSmove s t None)
             (filter (fun t => negb (is_color b c t)) (attacks_from (occupied b) c k s))
  end.

(** castling candidates: right held, king and rook on their home squares, squares between empty,
    king not in check and not passing over an attacked square (arrival is tested by legality) *)
Definition castle_moves (p : spos) (c : color) : list smove :=
  let b := brd p in
  let mk (right : bool) (ks rs : nat) (between : list nat) (transit : nat) (dst : nat) :=
    if right && (match at_ b ks with Some (c', K) => color_eqb c c' | _ => false end)
             && (match at_ b rs with Some (c', R) => color_eqb c c' | _ => false end)
             && forallb (fun s => negb (occupied b s)) between
             && negb (attacked b (other c) ks) && negb (attacked b (other c) transit)
    then [mkSmove ks dst None] else [] in
  match c with
  | Wh => mk (wk (rts p)) e1 h1 [f1; g1] f1 g1 ++ mk (wq (rts p)) e1 a1 [d1; c1; b1] d1 c1
  | Bl => mk (bk (rts p)) e8 h8 [f8; g8] f8 g8 ++ mk (bq (rts p)) e8 a8 [d8; c8; b8] d8 c8
  end.

Definition candidates (p : spos) (c : color) : list smove :=
  flat_map (fun s => match at_ (brd p) s with
                     | Some (c', k) => if color_eqb c c' then piece_moves p c k s else []
                     | None => []
                     end) all_squares
  ++ castle_moves p c.

(** board update *)
Fixpoint set_cell (b : mboard) (s : nat) (v : cell) : mboard :=
  match b, s with
  | [], _ => []
  | _ :: r, O => v :: r
  | x :: r, S n => x :: set_cell r n v
  end.

Definition is_castling_move (b : mboard) (m : smove) : bool :=
  match at_ b (sfrom m) with
  | Some (_, K) => (Z.abs (file_of (sfrom m) - file_of (sto m)) =? 2)
  | _ => false
  end.
Definition is_ep_move (p : spos) (m : smove) : bool :=
  match at_ (brd p) (sfrom m), eps p with
  | Some (_, P), Some e => Nat.eqb e (sto m) && negb (file_of (sfrom m) =? file_of (sto m)) && negb (occupied (brd p) (sto m))
  | _, _ => false
  end.
Definition is_double_step (b : mboard) (m : smove) : bool :=
  match at_ b (sfrom m) with
  | Some (_, P) => Z.abs (rank_of (sfrom m) - rank_of (sto m)) =? 2
  | _ => false
  end.

Definition drop_rights (r : rights) (s : nat) : rights :=
  mkRights (wk r && negb (Nat.eqb s e1) && negb (Nat.eqb s h1))
           (wq r && negb (Nat.eqb s e1) && negb (Nat.eqb s a1))
           (bk r && negb (Nat.eqb s e8) && negb (Nat.eqb s h8))
           (bq r && negb (Nat.eqb s e8) && negb (Nat.eqb s a8)).

(** the position after playing [m] (assumed to be a candidate move of the side [c]) *)
Definition apply_move (p : spos) (c : color) (m : smove) : spos :=
  let b := brd p in
  match at_ b (sfrom m) with
  | None => p
  | Some (_, k) =>
    let placed := match spromo m with Some pk => pk | None => k end in
    let b1 := set_cell (set_cell b (sfrom m) None) (sto m) (Some (c, placed)) in
    let b2 := if is_ep_move p m then set_cell b1 (sq_of (file_of (sto m)) (rank_of (sfrom m))) None else b1 in
    let b3 := if is_castling_move b m then
                if file_of (sto m) <? file_of (sfrom m)       (* towards file h: king side *)
                then set_cell (set_cell b2 (sq_of 0 (rank_of (sfrom m))) None) (sq_of 2 (rank_of (sfrom m))) (Some (c, R))
                else set_cell (set_cell b2 (sq_of 7 (rank_of (sfrom m))) None) (sq_of 4 (rank_of (sfrom m))) (Some (c, R))
              else b2 in
    let e := if is_double_step b m then Some (sq_of (file_of (sfrom m)) ((rank_of (sfrom m) + rank_of (sto m)) / 2)) else None in
    mkSpos b3 (drop_rights (drop_rights (rts p) (sfrom m)) (sto m)) e
  end.

Definition legal_b (p : spos) (c : color) (m : smove) : bool :=
  negb (in_check (brd (apply_move p c m)) c).

(** the legal moves of the side to move *)
Definition spec_legal (p : spos) (c : color) : list smove := filter (legal_b p c) (candidates p c).

(** what a move does: (is capture, is en passant, is castling, is promotion, is double step,
    moving piece, captured piece on the destination square) *)
Definition captured (p : spos) (m : smove) : option kind :=
  match at_ (brd p) (sto m) with Some (_, k) => Some k | None => None end.
Definition moving (p : spos) (m : smove) : option kind :=
  match at_ (brd p) (sfrom m) with Some (_, k) => Some k | None => None end.

Definition checkmate (p : spos) (c : color) : bool := in_check (brd p) c && match spec_legal p c with [] => true | _ => false end.
Definition stalemate (p : spos) (c : color) : bool := negb (in_check (brd p) c) && match spec_legal p c with [] => true | _ => false end.

(** spec_perft *)
Fixpoint spec_perft (p : spos) (c : color) (d : nat) : Z :=
  match d with
  | O => 1
  | S n => fold_left (fun acc m => acc + spec_perft (apply_move p c m) (other c) n) (spec_legal p c) 0
  end.

(** position identity for repetition purposes *)
Definition cell_eqb (a b : cell) : bool :=
  match a, b with
  | None, None => true
  | Some (c1, k1), Some (c2, k2) => color_eqb c1 c2 && kind_eqb k1 k2
  | _, _ => false
  end.
Fixpoint mboard_eqb (a b : mboard) : bool :=
  match a, b with
  | [], [] => true
  | x :: a', y :: b' => cell_eqb x y && mboard_eqb a' b'
  | _, _ => false
  end.
Definition rights_eqb (a b : rights) : bool :=
  Bool.eqb (wk a) (wk b) && Bool.eqb (wq a) (wq b) && Bool.eqb (bk a) (bk b) && Bool.eqb (bq a) (bq b).
Definition onat_eqb (a b : option nat) : bool :=
  match a, b with None, None => true | Some x, Some y => Nat.eqb x y | _, _ => false end.
Definition spos_eqb (a b : spos) : bool :=
  mboard_eqb (brd a) (brd b) && rights_eqb (rts a) (rts b) && onat_eqb (eps a) (eps b).
