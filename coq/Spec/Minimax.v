(** S3 — reference minimax over the specification game (Spec/Game.v): the value the searches of
    pkg/search must return.  Independent of bitboards, heaps, tables, windows and move ordering. *)
From Coq Require Import ZArith List Bool.
From Morlock.Model Require Import Score.
From Morlock.Spec Require Import Chess Game.
Import ListNotations.
Open Scope Z_scope.

Section MM.
  (** exploration predicate: (state before the move, state after it, move) *)
  Variable expl : gstate -> gstate -> smove -> bool.
  Variable qexpl : gstate -> gstate -> smove -> bool.
  (** leaf evaluation (float32 bit pattern), position-determined *)
  Variable leaf : gstate -> Z.

  Definition drawn_here (g : gstate) : bool := match g_now g with [] => false | _ => true end.
  Definition terminal_value (g : gstate) : score :=
    if in_check (brd (g_pos g)) (g_turn g) then neginf_score else zero_score.

  (** quiescence value (fuel bounds the recursion) *)
  Fixpoint spec_qv (fuel : nat) (g : gstate) : score :=
    match fuel with
    | O => invalid_score
    | S f =>
      if drawn_here g then zero_score else
      match spec_legal (g_pos g) (g_turn g) with
      | [] => terminal_value g
      | ms => fold_left (fun acc m => let g' := g_play g m in
                                      if qexpl g g' m then smax acc (T (spec_qv f g')) else acc)
                        ms (heuristic (leaf g))
      end
    end.

  Variable use_quiescence : bool.
  Variable qfuel : nat.

  (** minimax value at depth d; the root is expanded even if a draw could be claimed there *)
  Fixpoint spec_mm (d : nat) (root : bool) (g : gstate) : score :=
    if negb root && drawn_here g then zero_score else
    match d with
    | O => if use_quiescence then spec_qv qfuel g else heuristic (leaf g)
    | S d' =>
      match spec_legal (g_pos g) (g_turn g) with
      | [] => terminal_value g
      | ms => fold_left (fun acc m => let g' := g_play g m in
                                      if expl g g' m then smax acc (T (spec_mm d' false g')) else acc)
                        ms neginf_score
      end
    end.

  (** forced mate: the side to move mates in exactly k plies against the longest defence *)
End MM.

(** material balance for the side to move, on the mailbox board *)
Definition kind_value (k : kind) : Z :=
  match k with P => 1 | Bi => 3 | Kn => 3 | R => 5 | Q => 9 | K => 100 end.
Definition spec_material_int (g : gstate) : Z :=
  fold_left (fun acc s => match at_ (brd (g_pos g)) s with
                          | Some (c, k) => if color_eqb c (g_turn g) then acc + kind_value k else acc - kind_value k
                          | None => acc
                          end) all_squares 0.
