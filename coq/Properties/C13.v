(** C13 — A narrowed search window only ever clips the true value.
    The theorems are about the search of Model/Search.v - the function that is extracted and compared
    with Go on every check - over ANY game satisfying the representation laws of
    Lemmas/SearchContract.v (moves, push/pop, adjudication behave like a game tree), for any move
    ordering (the heap order is a permutation: MoveListPerm), any exploration predicate, any depth
    with qfuel + depth <= 127 (int8 mate distances), ALL windows including mate-score bounds and
    collapsed ones (relation Rm); the three-case statement of the property for a < b.
    [mm] / [qv] are the reference minimax / quiescence values on the tree.
    The statements are printed by [Check]; SearchToy.v discharges every hypothesis for a concrete
    game (non-vacuity); Lemmas/SearchBoardInst*.v does so for the real board model. *)
From Coq Require Import NArith ZArith List Bool.
From Morlock.Model Require Import Score Search.
From Morlock.Lemmas Require Import ScoreLemmas SearchScore SearchContract SearchToy.

Definition C13_window_three_cases := @ab_window.
Check @ab_window.
Print Assumptions ab_window.

Definition C13_contract_all_windows := @ab_contract.
Check @ab_contract.
Print Assumptions ab_contract.

(** quiescence: contract for every window; never below the static evaluation when a legal move
    exists; checkmate and stalemate rated exactly *)
Definition C13_quiescence := @qs_contract.
Check @qs_contract.
Print Assumptions qs_contract.

(** the score algebra laws the contract rests on, for the model's own operations *)
Theorem C13_adjunction : forall s v, valid s = true -> valid v = true -> inc_ok v = true ->
  less v inf_score = true -> less s (T v) = less v (U s).
Proof. exact adjunction. Qed.
Print Assumptions C13_adjunction.

(** with the unrepaired child window (U := negate) the key law fails: the defect repaired by the
    fix: commit "shift the child search window by one ply of mate distance" *)
Definition C13_legacy_refuted := A1_legacy_refuted.

(** non-vacuity: every hypothesis is satisfiable (concrete game, all laws proved, runs evaluated) *)
Definition C13_nonvacuous := toy_search_spec_a.

(** * For the real board model (see C03.v for the setting) *)
From Morlock.Lemmas Require Import SearchBoardInst1 SearchBoardInst4 SearchBoardInst SearchBoardInst5.
Definition C13_board_window := @board_window_nott.
Check @board_window_nott.
Print Assumptions board_window_nott.
Definition C13_board_quiescence := @board_qs_contract.
Check @board_qs_contract.
Print Assumptions board_qs_contract.

(** * Against the specification: the fail-soft window contract with v = the minimax value of the FIDE
    game tree ([spec_mm] of Spec/Minimax.v), see Properties/C03.v and Lemmas/MinimaxRefines.v *)
From Morlock.Lemmas Require Import MinimaxRefines.
Definition C13_window_is_spec := @board_window_is_spec.
Check @board_window_is_spec.
Print Assumptions board_window_is_spec.
