(** C01 — Legal move generation is exactly the FIDE legal-move set.
    For every legal position ([wf_b], Model/Abs.v) and both colours, the moves the bit-level generator
    accepts (pseudo_legal_moves filtered by pos_move), identified by (origin, destination, promotion),
    are exactly the legal moves of the mailbox specification Spec/Chess.v (castling, en passant, the
    four promotions and check evasions included), each listed once; and the whole record of every move
    (kind, moving piece, promotion piece, captured piece) is the one the rules determine from
    (origin, destination, promotion) in that position.  Proofs in Lemmas/MoveGen1..10.v. *)
From Coq Require Import NArith ZArith List Bool.
From Morlock.Model Require Import Bits Attacks Move Position Abs.
From Morlock.Spec Require Import Chess.
From Morlock.Lemmas Require Import MoveGen3 MoveGen7 MoveGen8 MoveGen10 MoveRefines.
From Morlock.Impl Require Import ImplBoard.
Import ListNotations.
Open Scope N_scope.

Theorem C01_legal_moves_fide : forall p turn, wf_b p turn = true -> (turn = 0 \/ turn = 1) ->
  (forall sm, In sm (map abs_move (legal_moves p turn)) <-> In sm (spec_legal (abs_pos p) (color_of turn))) /\
  NoDup (map abs_move (legal_moves p turn)).
Proof. exact legal_moves_fide. Qed.
Print Assumptions C01_legal_moves_fide.

(** the pseudo-legal generator, before the check test: exactly the specification's candidates without
    the castling transit conditions, each once *)
Theorem C01_pseudo_legal_spec : forall p turn, wf_b p turn = true -> (turn = 0 \/ turn = 1) ->
  (forall sm, (exists m, In m (pseudo_legal_moves p turn) /\ abs_move m = sm /\ metadata_ok p turn m) <->
              pseudo_candidate (abs_pos p) (color_of turn) sm) /\
  NoDup (map abs_move (pseudo_legal_moves p turn)).
Proof. exact pseudo_legal_spec. Qed.
Print Assumptions C01_pseudo_legal_spec.

(** the kind, moving piece and captured piece reported with each move describe what that move really
    does: the record equals [concretize], which reads kind (en passant / castling side / double step /
    promotion / capture / push / normal), moving piece and captured piece off the specification board
    (en passant records no captured piece, by the code's documented convention) *)
Theorem C01_move_metadata : forall p turn m, wf_b p turn = true -> (turn = 0 \/ turn = 1) ->
  In m (legal_moves p turn) -> m = concretize (abs_pos p) (color_of turn) (abs_move m).
Proof.
  intros p turn m Hwf Hc Hin. unfold legal_moves in Hin. apply filter_In in Hin as [Hin _].
  exact (proj2 (pseudo_legal_sound p turn m (wf_b_WF _ _ Hwf) Hc Hin)).
Qed.
Print Assumptions C01_move_metadata.

(** no hypothesis at all is needed for "each listed once" on the raw list *)
Theorem C01_pseudo_legal_nodup : forall p turn, NoDup (pseudo_legal_moves p turn).
Proof. exact pseudo_legal_nodup. Qed.

(** all sequences of legal moves stay inside the legal positions (C02_reachable), so the theorem applies
    to every position reachable by play from any legal start. *)
Definition C01_nonvacuous := initial_position_legal.
