(** C17 — The transposition table is safe under concurrent searches.
    Micro-step semantics of Model/TT.v (atomic load, compare-and-swap, atomic counter increment) for
    ANY number of threads, ANY programs of Read/Write operations and ANY schedule.
    Proofs in Lemmas/TTLemmas{,2,3,4}.v. *)
From Coq Require Import NArith ZArith List Bool.
From Morlock.Model Require Import Bits Score Move TT.
From Morlock.Lemmas Require Import TTLemmas TTLemmas2 TTLemmas3 TTLemmas4.
Import ListNotations.
Open Scope N_scope.

(** every successful lookup returns the tuple of ONE single store for that same hash, never a mixture:
    the j-th output of thread i answers the j-th Read of its program *)
Theorem C17_read_is_one_write : forall a n progs sched i t j x, (0 < n)%nat ->
  nth_error (c_threads (crun a (c_init n progs) sched)) i = Some t ->
  nth_error (t_out t) j = Some (Some x) ->
  exists prog hash, nth_error progs i = Some prog /\ nth_error (reads_of prog) j = Some hash /\
                    one_write progs hash x.
Proof. exact read_is_one_write. Qed.
Print Assumptions C17_read_is_one_write.

(** a store only replaces an entry of no greater replacement value *)
Theorem C17_replace_monotone : forall a s i s', cstep a s i = Some s' -> c_slots s' <> c_slots s ->
  exists k fresh, c_slots s' = updN (c_slots s) k (Some fresh) /\ c_nodes s' = c_nodes s /\
                  val (node_of s (nthN (c_slots s) k None)) <= val (node_of s (Some fresh)).
Proof. exact replace_monotone. Qed.
Print Assumptions C17_replace_monotone.

(** the fill counter counts every occupied slot exactly once (atomic increment, as repaired):
    used + pending increments = occupied slots in every reachable state, 0 <= used <= slots, and
    used = occupied in every quiescent state *)
Theorem C17_used_counts_slots : forall n progs sched, (0 < n)%nat ->
  let s := crun true (c_init n progs) sched in
  c_used s + N.of_nat (cnt is_bump (c_threads s)) = c_occupied s /\
  0 <= c_used s <= N.of_nat n /\ length (c_slots s) = n /\
  (c_quiescent s = true -> c_used s = c_occupied s).
Proof. exact used_counts_slots. Qed.
Print Assumptions C17_used_counts_slots.

(** the fraction stays in [0,1] even for the racy counter *)
Theorem C17_used_le_occupied : forall a n progs sched, (0 < n)%nat ->
  let s := crun a (c_init n progs) sched in
  c_used s <= c_occupied s /\ c_occupied s <= N.of_nat n /\ 0 <= c_used s <= N.of_nat n.
Proof. exact used_le_occupied. Qed.

(** no data race (Go memory model: same location, one write, not both atomic) in any reachable state *)
Theorem C17_no_conflicting_access : forall n progs sched, (0 < n)%nat ->
  ~ race true (crun true (c_init n progs) sched).
Proof. exact no_conflicting_access. Qed.
Print Assumptions C17_no_conflicting_access.

(** nodes are immutable once allocated *)
Theorem C17_node_immutable : forall a s sched id e,
  nth_error (c_nodes s) id = Some e -> nth_error (c_nodes (crun a s sched)) id = Some e.
Proof. exact node_immutable. Qed.

(** one thread running alone = the sequential table of Model/TT.v (the one the searches use) *)
Definition C17_sequential_refinement := sequential_refinement.
Print Assumptions sequential_refinement.

(** the code as found (plain t.used++) loses updates and races: repaired by a fix: commit *)
Definition C17_legacy_refuted := (used_racy_refuted, race_freedom_fails_as_found).

(** non-vacuity *)
Definition C17_examples := (ex_run_final, ex_replace_happens, ex_read_hits).
