(** C15 — Iterative deepening reports each depth faithfully and stops when it should.
    (1) Reporting: UciSeq.iterate (= handle.process for a run that is never halted) on the real board
        model; (2) time control: TimeControl.Limits; (3) the halting protocol (init / quit / done,
        stored pv, one-slot channel) is part of the driver transition system (Properties/C16.v).
    Proofs in Lemmas/IterateLemmas.v, Lemmas/SearchctlLemmas.v. *)
From Coq Require Import NArith ZArith List Bool.
From Morlock.Model Require Import Score Zobrist Search TT SearchBoard UciSeq Searchctl.
From Morlock.Lemmas Require Import IterateLemmas SearchctlLemmas.
From Morlock.Impl Require Import ImplMisc.
Import ListNotations.

(** for a depth limit l >= 1 the analysis reports depths 1, 2, 3, ... in increasing order, each entry
    being exactly what the direct fixed-depth search (search_board, full window) returns at that depth
    on the threaded board and table ([stream]), and ends by itself exactly at the limit or at the
    first depth whose score carries a forced mate within that depth *)
Definition C15_iterate_reports := @iterate_reports.
Check @iterate_reports.
Print Assumptions iterate_reports.
Check @stream_ind.

(** the direct search in turn returns the minimax value and a sound PV (C03) *)

(** under a time control the hard limit granted to a move never exceeds the time left on the clock -
    for every moves-to-go value (the hypothesis "moves < 2^31" that this theorem used to carry pointed at
    a genuine defect: moves-to-go 2^63 - 1 made the divisor 0 and the search goroutine panicked; repaired
    by the cap in TimeControl.Limits, see [limits_legacy_divisor_zero], [limits_divisor_pos]) *)
Theorem C15_limits_hard_le_clock : forall white black moves c,
  (0 <= white <= 9223372036854775807)%Z -> (0 <= black <= 9223372036854775807)%Z ->
  let '(soft, hard) := limits white black moves c in
  let remaining := if (c =? 1)%Z then black else white in
  (0 <= soft /\ soft <= hard /\ hard <= remaining)%Z.
Proof. exact limits_hard_le_clock. Qed.
Print Assumptions C15_limits_hard_le_clock.
Check limits_divisor_pos.
Check limits_legacy_divisor_zero.

(** the same end to end from the numbers on the go line: uci.go multiplies the milliseconds by 10^6 in
    int64 (wrapping); for EVERY clock value strconv.Atoi accepts (0 .. 2^63 - 1 ms) and every moves-to-go
    the hard limit never exceeds the true time on the clock, and below 292 years nothing wraps *)
Theorem C15_go_limits_hard_le_clock : forall wms bms moves c,
  (0 <= wms <= 9223372036854775807)%Z -> (0 <= bms <= 9223372036854775807)%Z ->
  let '(soft, hard) := go_limits wms bms moves c in
  let remaining_ms := if (c =? 1)%Z then bms else wms in
  (soft <= 1000000 * remaining_ms /\ hard <= 1000000 * remaining_ms)%Z.
Proof. exact go_limits_hard_le_clock. Qed.
Print Assumptions C15_go_limits_hard_le_clock.
Check go_limits_exact.
Check go_duration_wraps.
Check go_limits_negative_clock.

(** tie: Limits equals the values dumped from the running code on a grid of clocks / moves-to-go *)
Definition C15_impl := (impl_limits, impl_go_limits, impl_tt_val).

(** * Halting protocol (driver transition system, every interleaving) *)
From Morlock.Model Require Import Driver.
From Morlock.Lemmas Require Import DriverLemmas4 DriverLemmas.
(** Halt never returns before depth 1 is complete *)
Definition C15_halt_after_depth1 := @halt_after_depth1.
Check @halt_after_depth1.
Print Assumptions halt_after_depth1.
(** it returns a fully completed iteration (the stored pv of the search) ... *)
Definition C15_halt_returns_completed := @halt_returns_completed.
Check @halt_returns_completed.
(** ... at least as deep as every iteration reported before the halt was requested *)
Definition C15_halt_at_least_reported := @halt_at_least_reported.
Check @halt_at_least_reported.
Check @halt_protocol.
Check @timer_halt_after_depth1.
