(** C12 — Halting a search at any instant is clean.
    Cancellation is an oracle answering the n-th poll of ctx.Done(), monotone; the theorems hold for
    EVERY oracle, i.e. every cancellation point: the search reports halted exactly when its final
    poll was answered "cancelled" (then no score, no PV), the board is handed back at the node it was
    received at, and the table invariant (exact entries are true values) is preserved - so that, by
    C11, a search run afterwards with the same table returns the value it would have returned had the
    halted one never run. *)
From Coq Require Import NArith ZArith List Bool.
From Morlock.Model Require Import Score Search.
From Morlock.Lemmas Require Import SearchScore SearchContract SearchToy.

Definition C12_halt_reports := @halt_reports.
Check @halt_reports.
Print Assumptions halt_reports.

Definition C12_halt_restores_board := @halt_restores_board.
Check @halt_restores_board.
Print Assumptions halt_restores_board.

Definition C12_halt_writes_nothing_false := @halt_writes_nothing_false.
Check @halt_writes_nothing_false.
Print Assumptions halt_writes_nothing_false.

(** a search entered after a cancelled poll returns at once and writes nothing *)
Definition C12_cancelled_entry := @ab_cancelled_entry.
Check @ab_cancelled_entry.

Definition C12_nonvacuous := toy_search_spec.

(** * For the real board model *)
From Morlock.Lemmas Require Import SearchBoardInst1 SearchBoardInst SearchBoardInst5.
Definition C12_board_halt_restores := @board_halt_restores.
Check @board_halt_restores.
Print Assumptions board_halt_restores.
Definition C12_board_nonvacuous := kr_cancelled.
