(** C19 — Textual input is handled totally: no string can crash or corrupt the game.
    Codec part: Model/Fen.v has an explicit Crash outcome for Go panics; the theorems show it is
    unreachable for the repaired decoder and that accepted inputs are well formed and stable under
    re-encoding.  Proofs in Lemmas/FenLemmas{1,2,3}.v. The Engine.Move part (accepted iff the string
    denotes a legal move; rejected input leaves the state unchanged) is checked against the
    specification on every run; its theorem is stated in Lemmas/EngineLemmas (in progress). *)
From Coq Require Import NArith ZArith List Bool.
From Morlock.Model Require Import Bits Attacks Move Position Fen Abs EngineSpec.
From Morlock.Lemmas Require Import PositionLemmas FenLemmas1 FenLemmas2 FenLemmas3.
Import ListNotations.
Open Scope N_scope.

Theorem C19_decode_total : forall s, decode s <> Crash.
Proof. exact decode_total. Qed.
Print Assumptions C19_decode_total.

Theorem C19_decode_err_or_wf : forall s, decode s = Err \/ exists d, decode s = Ok d /\ wf_value d = true.
Proof. exact decode_err_or_wf. Qed.
Print Assumptions C19_decode_err_or_wf.

Theorem C19_decode_reencode : forall s pos c np fm, decode s = Ok (pos, c, np, fm) ->
  decode (encode pos c np fm) = Ok (pos, c, np, fm).
Proof. exact decode_reencode. Qed.
Print Assumptions C19_decode_reencode.

(** moves and squares: total functions; exactly the strings file rank file rank [promotion] *)
Definition C19_parse_move_accepts := parse_move_accepts.
Check parse_move_accepts.
Definition C19_parse_move_wf := parse_move_wf.
Definition C19_parse_square := (parse_square_str_accepts, parse_square_str_roundtrip).

(** the decoder as found (uint8 cursor) crashes / returns a nil position without error *)
Definition C19_legacy_refuted := (decode_legacy_crash, decode_legacy_nil, decode_repaired_rejects).

(** * Engine.Move (engine part): accepted exactly when the string denotes a legal move of the current
    position of the specification game; on acceptance the engine refines g_play; rejected input
    leaves the engine state unchanged (Leibniz equality). *)
From Morlock.Model Require Import Engine.
From Morlock.Lemmas Require Import EngineLemmas1 EngineLemmas2.
Definition C19_engine_move_iff_legal := @engine_move_iff_legal.
Check @engine_move_iff_legal.
Print Assumptions engine_move_iff_legal.
Definition C19_rejected_unchanged := @engine_move_rejected_unchanged_any.
Check @engine_move_rejected_unchanged_any.
