(** C07 — Position hash is path-independent: incremental hash equals hash from scratch.
    The key table [z] is ARBITRARY (a record of functions): the theorems hold for every table, hence
    for every seed; the only fact used about real tables is [zt_ok] (NewZobristTable leaves the
    en-passant keys off ranks 3 and 6 at zero).  Proofs in Lemmas/ZobristLemmas{1..5,}.v. *)
From Coq Require Import NArith ZArith List Bool.
From Morlock.Model Require Import Bits Attacks Move Position Zobrist Abs.
From Morlock.Lemmas Require Import PositionLemmas ZobristLemmas1 ZobristLemmas3 ZobristLemmas4 ZobristLemmas5 ZobristLemmas.
From Morlock.Impl Require Import ImplBoard.
Import ListNotations.
Open Scope N_scope.

(** one move: updating the hash incrementally = hashing the successor from scratch (all move types) *)
Theorem C07_zobrist_incremental : forall z pos turn m pos',
  zt_ok z -> wf_b pos turn = true -> In m (pseudo_legal_moves pos turn) -> pos_move pos m = Some pos' ->
  zmove z (zhash z pos turn) pos m = zhash z pos' (opponent turn).
Proof. exact zobrist_incremental. Qed.
Print Assumptions C07_zobrist_incremental.

(** all move sequences: the hash maintained along any line of legal moves from any legal start is the
    scratch hash of the position reached *)
Theorem C07_hash_run_scratch : forall z p t ms q u, zt_ok z ->
  wf_b p t = true -> plays p t ms q u -> hash_run z (zhash z p t) p ms = zhash z q u.
Proof. exact hash_run_scratch. Qed.
Print Assumptions C07_hash_run_scratch.

(** any two lines reaching the same position and side report the same hash, whatever the path *)
Theorem C07_path_independent : forall z p1 t1 ms1 q1 p2 t2 ms2 q2 u, zt_ok z ->
  wf_b p1 t1 = true -> wf_b p2 t2 = true ->
  plays p1 t1 ms1 q1 u -> plays p2 t2 ms2 q2 u -> pos_eqb q1 q2 = true ->
  hash_run z (zhash z p1 t1) p1 ms1 = hash_run z (zhash z p2 t2) p2 ms2.
Proof. exact path_independent. Qed.
Print Assumptions C07_path_independent.

(** equal components (placement, castling rights, e.p. target, side) give equal hashes; clocks and
    history do not enter [zhash] at all *)
Theorem C07_same_components : forall z p1 t1 p2 t2, same_components p1 t1 p2 t2 -> zhash z p1 t1 = zhash z p2 t2.
Proof. exact zhash_same. Qed.

(** positions differing in any component collide only if a xor of DISTINCT table keys vanishes
    (the 2^-64 event, which is about math/rand and is not modelled) *)
Theorem C07_separation : forall z p1 t1 p2 t2, Inv p1 -> Inv p2 -> (p1, t1) <> (p2, t2) ->
  zhash z p1 t1 = zhash z p2 t2 ->
  exists ks, ks <> [] /\ NoDup ks /\ xorl (map (zval z) ks) = 0.
Proof. exact zhash_collision_positions. Qed.
Print Assumptions C07_separation.

(** the code as found (castling[old & lost]) is refuted on the initial position and e2e4 *)
Definition C07_legacy_refuted := (zobrist_legacy_refuted, zobrist_legacy_violates).
Definition C07_nonvacuous := zobrist_incremental_nonvacuous.

(** * Game boards: every history node of a board played from a legal start carries the scratch hash of
    its position and side (so Board.Hash() = ZobristTable.Hash(Position(), Turn()) after every push);
    take-back returns to the previous node, whose stored hash is restored unchanged (C08). *)
From Morlock.Lemmas Require Import GameLemmas7.
Definition C07_board_hash_scratch := @hash_consistent.
Check @hash_consistent.
Print Assumptions hash_consistent.
