(** C04 — UCI: every go is answered by exactly one legal bestmove.
    (1) exactly one, for every interleaving: driver transition system (Model/Driver.v);
    (2) the move: the bestmove is the head of the principal variation of the last completed
        iteration (UciSeq.go_depth for runs that end by themselves), which by C03 (pv_sound on the
        real board) is a legal move and is non-empty whenever a legal move exists at a root that is
        always expanded - also when a draw can be claimed there;
    (3) book replies are legal in the position they are returned for (C20). *)
From Coq Require Import List Bool Arith.
From Morlock.Model Require Import Driver.
From Morlock.Lemmas Require Import DriverLemmas1 DriverLemmas2 DriverLemmas5 DriverLemmas.
From Morlock.Lemmas Require Import SearchBoardInst1 SearchBoardInst.
Import ListNotations.

(** at most one bestmove per go, in every reachable state *)
Definition C04_at_most_one := @at_most_one_bestmove.
Check @at_most_one_bestmove.
Print Assumptions at_most_one_bestmove.

(** exactly one, once the system has come to rest: every go that was not superseded and whose search
    ended by itself (not infinite) or was told to stop has been answered - go infinite + stop included *)
Definition C04_exactly_one := @exactly_one_bestmove.
Check @exactly_one_bestmove.
Print Assumptions exactly_one_bestmove.
Check @bestmove_only_for_go.

(** the answer carries a completed iteration: Halt returns depth >= 1 (C15) *)
Check @halt_after_depth1.

(** legality and null move: the PV of a full-window root search on the real board model *)
Definition C04_pv_legal := @board_pv_sound_nott.
Check @board_pv_sound_nott.
