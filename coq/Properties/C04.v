(** C04 — UCI: every go is answered by exactly one legal bestmove.
    (1) exactly one, for every interleaving: driver transition system (Model/Driver.v);
    (2) the move: the bestmove is the head of the principal variation of the last completed
        iteration (UciSeq.go_depth for runs that end by themselves), which by C03 (pv_sound on the
        real board) is a legal move and is non-empty whenever a legal move exists at a root that is
        always expanded - also when a draw can be claimed there;
    (3) book replies are legal in the position they are returned for (C20). *)
From Coq Require Import List Bool Arith.
From Morlock.Model Require Import Driver.
From Morlock.Lemmas Require Import DriverLemmas1 DriverLemmas2 DriverLemmas5 DriverLemmas.
From Morlock.Lemmas Require Import SearchBoardInst1 SearchBoardInst.
Import ListNotations.

(** at most one bestmove per go, in every reachable state *)
Definition C04_at_most_one := @at_most_one_bestmove.
Check @at_most_one_bestmove.
Print Assumptions at_most_one_bestmove.

(** exactly one, once the system has come to rest: every go that was not superseded and whose search
    ended by itself (not infinite) or was told to stop has been answered - go infinite + stop included *)
Definition C04_exactly_one := @exactly_one_bestmove.
Check @exactly_one_bestmove.
Print Assumptions exactly_one_bestmove.
Check @bestmove_only_for_go.

(** the answer carries a completed iteration: Halt returns depth >= 1 (C15) *)
Check @halt_after_depth1.

(** legality and null move: the PV of a full-window root search on the real board model *)
Definition C04_pv_legal := @board_pv_sound_nott.
Check @board_pv_sound_nott.

(** * End to end, on the sequential UCI model that is compared line by line with the real driver
    (Model/UciSeq.v [go_depth]: fork, iterative deepening with the engine table, bestmove = head of the last
    PV; [u_position]): the answer to `go depth d` is a move that is legal in the specification game of the
    position last set up, the null move only if that game has no legal move - with or without table, also
    when a draw can be claimed at the root (threefold, clock 100, bare kings: [drawn_roots_answered]) - and
    the engine's own game is untouched.  Whole sessions: any interleaving of valid position lines,
    ucinewgame and go depth d ([uci_session_legal_noq]). *)
From Morlock.Lemmas Require Import UciLegal1 UciLegal2 UciLegal3 UciLegal4 UciLegal.
Definition C04_bestmove_legal := @go_depth_bestmove_legal.
Check @go_depth_bestmove_legal.
Check @go_depth_bestmove_legal_table.
Check @go_depth_bestmove_legal_noq.
Check @go_depth_answer.
Check @uci_session_legal.
Check @uci_session_legal_noq.
Check @uci_positions_then_go_noq.
Check @new_table_TTInv.
Check drawn_roots_answered.
Check stalemate_null_move.
Check sessions_by_theorem.
Check lied_flag_null_move.
Print Assumptions go_depth_bestmove_legal.
Print Assumptions go_depth_bestmove_legal_table.
Print Assumptions uci_session_legal_noq.
