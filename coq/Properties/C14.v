(** C14 — FEN codec round-trips and the engine reports standard FEN for its game.
    Codec part (this file): Model/Fen.v encode/decode, proofs in Lemmas/FenLemmas{1,2,3}.v, with
    Leibniz equality of positions.  The reported-FEN part (half-move clock = half-moves since the last
    pawn move or capture, full-move number incremented after Black's moves) is stated with C05
    (clock_spec) and checked against the specification game on every run. *)
From Coq Require Import NArith ZArith List Bool.
From Morlock.Model Require Import Bits Attacks Move Position Fen Abs EngineSpec.
From Morlock.Lemmas Require Import PositionLemmas FenLemmas1 FenLemmas2 FenLemmas3.
Import ListNotations.
Open Scope N_scope.

Theorem C14_decode_encode : forall pos c np fm, Inv pos -> (c = 0 \/ c = 1) ->
  (0 <= np <= 9223372036854775807)%Z -> (0 <= fm <= 9223372036854775807)%Z ->
  decode (encode pos c np fm) = Ok (pos, c, np, fm).
Proof. exact decode_encode. Qed.
Print Assumptions C14_decode_encode.

(** decoding a canonical FEN (a string in the image of encode) and re-encoding reproduces it *)
Definition C14_canonical := encode_decode_canonical.
Check encode_decode_canonical.
Print Assumptions encode_decode_canonical.

Theorem C14_atoi_itoa : forall z, (-9223372036854775808 <= z <= 9223372036854775807)%Z -> atoi (itoa z) = Some z.
Proof. exact atoi_itoa. Qed.

Definition C14_nonvacuous := initial_roundtrip.
(** hypotheses are needed: negative clocks are printed with a sign and rejected; lenient inputs are
    accepted but are not canonical *)
Definition C14_boundaries := (negative_clock_rejected, lenient_not_canonical).

(** * Reported FEN (engine part): the FEN an engine reports decodes to the specification game state
    it refines: position, side, half-move clock = half-moves since the last pawn move or capture
    (g_clock_since_last), full-move number incremented after Black's moves (g_fullmove_all). *)
From Morlock.Model Require Import Engine.
From Morlock.Lemmas Require Import EngineLemmas1 EngineLemmas2 EngineLemmas3.
Definition C14_engine_fen_standard := @engine_fen_standard.
Check @engine_fen_standard.
Print Assumptions engine_fen_standard.
Check @g_clock_since_last.
Check @g_fullmove_all.
