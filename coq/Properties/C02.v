(** C02 — Playing a move yields exactly the successor position of the rules.
    [wf_b p turn] = legal position (Model/Abs.v): representation invariant, one king per side, no pawn
    on ranks 1/8, castling right => king and rook at home, consistent e.p. target, side not to move not
    in check.  [abs_pos] maps the 18 machine words of a position to the mailbox board of the
    specification; [apply_move] is the successor according to the rules (Spec/Chess.v).
    Proofs in Lemmas/PositionLemmas.v and Lemmas/MoveRefines*.v, for all nine move types. *)
From Coq Require Import NArith ZArith List Bool.
From Morlock.Model Require Import Bits Attacks Move Position Abs.
From Morlock.Spec Require Import Chess.
From Morlock.Lemmas Require Import PositionLemmas MoveRefines2 MoveRefines MoveGen2.
From Morlock.Impl Require Import ImplBoard.
Import ListNotations.
Open Scope N_scope.

(** piece placement (rook hop in castling, pawn removed in en passant, promoted piece), castling
    rights and en-passant target: the whole successor is the one the rules prescribe *)
Theorem C02_move_refines : forall p turn m p', wf_b p turn = true -> In m (pseudo_legal_moves p turn) ->
  pos_move p m = Some p' -> abs_pos p' = apply_move (abs_pos p) (color_of turn) (abs_move m).
Proof. intros p turn m p' Hwf. apply move_refines; [apply (proj1 (wf_b_elim _ _ Hwf))|exact Hwf]. Qed.
Print Assumptions C02_move_refines.

(** every view of the new position agrees with every other: the representation invariant
    (per-piece / per-colour sets disjoint and consistent, occupancy, rotated words) is preserved ... *)
Theorem C02_move_inv : forall p turn m p', wf_b p turn = true -> In m (pseudo_legal_moves p turn) ->
  pos_move p m = Some p' -> Inv p'.
Proof. intros p turn m p' Hwf. apply move_inv; [apply (proj1 (wf_b_elim _ _ Hwf))|exact Hwf]. Qed.
Print Assumptions C02_move_inv.

(** ... under which square lookup and attack queries are functions of the abstract board *)
Theorem C02_square_view : forall pos sq c p, Inv pos -> sq < 64 ->
  (square pos sq = Some (c, p) <-> (c = 0 \/ c = 1) /\ 1 <= p <= 6 /\ N.testbit (pget pos c p) sq = true).
Proof. intros pos sq c p HI Hs. apply square_some; assumption. Qed.
Theorem C02_attack_view : forall pos c sq, Inv pos -> (c = 0 \/ c = 1) -> sq < 64 ->
  is_attacked pos c sq = attacked (brd (abs_pos pos)) (other (color_of c)) (N.to_nat sq).
Proof. exact is_attacked_iff. Qed.
Print Assumptions C02_attack_view.

(** castling rights: dropped exactly when the king or a rook leaves, or a piece lands on, a home square *)
Theorem C02_castling_rights : forall p turn m p', wf_b p turn = true -> In m (pseudo_legal_moves p turn) ->
  pos_move p m = Some p' ->
  castling p' = andnot (castling p) (castling_rights_lost m) /\
  abs_rights (castling p') =
    drop_rights (drop_rights (abs_rights (castling p)) (N.to_nat (mfrom m))) (N.to_nat (mto m)).
Proof. intros p turn m p' Hwf. apply castling_rights_spec; [apply (proj1 (wf_b_elim _ _ Hwf))|exact Hwf]. Qed.
Print Assumptions C02_castling_rights.

(** an en-passant target only directly after a double pawn step *)
Theorem C02_ep_only_after_jump : forall p turn m p', wf_b p turn = true -> In m (pseudo_legal_moves p turn) ->
  pos_move p m = Some p' -> (enpassant p' <> 0 <-> mtype m = Jump).
Proof. intros p turn m p' Hwf Hin Hmv.
  exact (proj1 (ep_only_after_jump _ _ _ _ (proj1 (wf_b_elim _ _ Hwf)) Hwf Hin Hmv)). Qed.
Print Assumptions C02_ep_only_after_jump.

(** legal positions are closed under legal moves, hence for ALL sequences of legal moves the invariant
    holds and the position reached is the one the rules give (errors in a redundant view cannot surface
    later either) *)
Theorem C02_move_wf : forall p turn m p', wf_b p turn = true -> In m (pseudo_legal_moves p turn) ->
  pos_move p m = Some p' -> wf_b p' (opponent turn) = true.
Proof. intros p turn m p' Hwf. apply move_wf; [apply (proj1 (wf_b_elim _ _ Hwf))|exact Hwf]. Qed.
Theorem C02_reachable : forall p t ms p' t', wf_b p t = true -> played p t ms p' t' ->
  wf_b p' t' = true /\ Inv p' /\ abs_pos p' = spec_play (abs_pos p) (color_of t) (map abs_move ms).
Proof. exact reachable_inv. Qed.
Print Assumptions C02_reachable.

(** the position moved from is left untouched: [pos_move] is a pure function of its arguments (the Go
    method copies the struct; the correspondence check re-dumps the origin after every move). *)

(** Non-vacuity and the legacy refutation *)
Definition C02_examples := (initial_position_legal, legacy_castling_rights_lost_wrong).
