(** C10 — UCI: the engine game always equals the one the last position command describes.
    Model/Engine.v (cmd_position, cmd_ucinewgame, eng_move, eng_reset) vs EngineSpec.setup, which
    builds the game from the line ALONE on the specification game.  [ERel e g]: the engine's board
    refines the specification game state g (position, side, clock, full-move number, and the whole
    history chain = g_past, i.e. what repetition detection reads).  Proofs in Lemmas/EngineLemmas1-5.v. *)
From Coq Require Import NArith ZArith List Bool.
From Morlock.Model Require Import Bits Attacks Move Position Zobrist Board Fen Abs Engine EngineSpec.
From Morlock.Spec Require Import Chess Game.
From Morlock.Lemmas Require Import EngineLemmas1 EngineLemmas2 EngineLemmas3 EngineLemmas4 EngineLemmas5.
Import ListNotations.

(** any sequence of position / ucinewgame commands (GUI form, valid FEN, legal moves): the driver
    never exits and the engine ends in the game the last position line describes *)
Definition C10_position_sequence := @position_sequence.
Check @position_sequence.
Print Assumptions position_sequence.

(** a command that extends the previous one = setting the whole line up from scratch *)
Definition C10_position_continuation := @position_continuation.
Check @position_continuation.
Definition C10_setup_extend := @setup_extend.
Check @setup_extend.
Definition C10_position_fresh := @position_fresh.
Check @position_fresh.
Print Assumptions position_continuation.

(** the continuation test as found (textual prefix) shuts the driver down on a verbatim repetition *)
Check legacy_repetition_exits.
Check legacy_textual_prefix_exits.
(** boundary: a bare `position` line is not in GUI form (gui_form_needed) *)
Check gui_form_needed.
(** non-vacuity: extension, verbatim repeat, shortening, ucinewgame, FEN with castling *)
Check run_mixed.
Check mixed_by_theorem.

(** * Sessions that also search and change options (Lemmas/UciLegal5.v)
    after ANY list of `position` (GUI form), `ucinewgame`, `go depth d` and `setoption name Hash value n`
    commands on the sequential UCI model - the model compared line by line with real driver sessions -
    the driver is alive and the engine game is [setup line] for the LAST position line: a search (which
    forks the board and threads the table) and a table-size change between two position lines never
    disturb the game, and a following continuation line continues it *)
From Morlock.Lemmas Require Import UciLegal4 UciLegal5 UciLegal.
Definition C10_session_game := @session_game.
Check @session_game.
Print Assumptions session_game.
Check @session_inv.
Definition C10_session_game_noq := @uci_session_game_noq.
Check @uci_session_game_noq.
Print Assumptions uci_session_game_noq.
