(** C20 — Historical engines: total evaluations, sound move filters, legal book moves.

    "For TUROCHAMP, BERNSTEIN and SARGON, in every legal position: the evaluation is a finite number, and the
    generic material, TUROCHAMP and BERNSTEIN evaluations are colour-blind (mirroring the board and swapping
    colours gives the side to move the same value).  Their move filters (plausible moves, considerable moves,
    no under-promotion) only select legal moves, each once and within the branch limit, and the main-search
    filters (plausible moves, no under-promotion) select at least one whenever a legal move exists; every
    opening-book reply is legal in the position it is keyed on."

    Model/Engines.v mirrors cmd/turochamp, cmd/bernstein, cmd/sargon and pkg/eval/material.go on the
    bit-level position of Model/Position.v; its evaluation terms, the ordered plausible-move list and the
    considerable-move predicate are compared with the Go functions on every run (`engines` cases).
    Finiteness is stated on the integer skeleton of the evaluations: every divisor is an integer >= 1 and
    every operand a bounded integer, so the float32 operations that follow (conversion, one division,
    rounding, sqrt of a count) cannot produce NaN or an infinity; those float steps themselves are not
    modelled.  Colour-blindness of the whole BERNSTEIN evaluation in every legal position is
    [bernstein_colourblind_full] (Lemmas/MirrorMobility*.v: the number of legal moves commutes with the
    mirror for BOTH colours of a legal position).  The statement first written down for it, over the bare
    representation invariant, is false ([mirror_mobility_statement_false]: an en passant field outside
    ranks 3/6 is not mirror-symmetric) - it holds under [ep_rank_ok], which every legal position satisfies. *)
From Coq Require Import NArith ZArith List Bool.
From Morlock.Model Require Import Bits Score Attacks Move Position Abs Fen Engines.
From Morlock.Lemmas Require Import EnginesLemmas MirrorMobility.

Definition C20_finite := @C20_evaluations_finite.
Check @C20_evaluations_finite.
Check @turochamp_material_total.
Check @bernstein_eval_total.
Check @material_bounded_wf.

Definition C20_blind := @C20_colourblind.
Check @C20_colourblind.
Check @material_colourblind.
Check @turochamp_material_colourblind.
Check @is_attacked_mirror.
Check @mirror_wf.
Check mirror_mobility_statement.
Check @bernstein_colourblind_from_mobility.
Check mobility_mirror_samples.
Definition C20_bernstein_colourblind := @Statements.bernstein_colourblind_full.
Check @Statements.bernstein_colourblind_full.
Check @Statements.bernstein_evaluate_colourblind.
Check @Statements.mirror_mobility_wf.
Check @Statements.mirror_mobility_ep.
Check @Statements.legal_moves_mirror_perm.
Check @Statements.mirror_mobility_statement_false.

Definition C20_move_filters := @C20_filters.
Check @C20_filters.
Check @underpromo_filter_nonstarving.
Check @selection_sound.
Check @plausible_subset_legal.
Check @considerable_total.

Definition C20_book_moves := @C20_books.
Check @C20_books.
Check @book_moves_legal.
Check @sargon_book_moves_legal.

Print Assumptions C20_evaluations_finite.
Print Assumptions C20_colourblind.
Print Assumptions C20_filters.
Print Assumptions C20_books.
Print Assumptions Statements.bernstein_colourblind_full.
