(** C16 — UCI driver survives any interleaving and never answers for a stale search.
    Model/Driver.v is a small-step transition system of the repaired driver (uci.go command loop,
    engine slot, per-search handle / process / one-slot PV channel / forwarder, movetime and
    hard-limit timers, the ponder queue of tagged updates); [reachable cap script s]: s is reachable
    from the initial state with ANY command script under ANY interleaving of the goroutines' steps.
    Proofs in Lemmas/DriverLemmas1-8.v. *)
From Coq Require Import List Bool Arith.
From Morlock.Model Require Import Driver.
From Morlock.Lemmas Require Import DriverLemmas1 DriverLemmas2 DriverLemmas3 DriverLemmas4 DriverLemmas5
  DriverLemmas6 DriverLemmas7 DriverLemmas8 DriverLemmas DriverTrace1 DriverTrace2 DriverTrace3 DriverTrace.
Import ListNotations.

(** no crash: nothing is ever sent on the closed output channel (only the loop writes, and it closes
    the output only when it exits) *)
Definition C16_no_send_on_closed := @no_send_on_closed.
Check @no_send_on_closed.
Print Assumptions no_send_on_closed.
Check @output_closed_iff_exited.

(** never a bestmove for a superseded search: once a position / ucinewgame / go / quit / end of input
    has been consumed, no earlier search is ever answered *)
Definition C16_no_stale_bestmove := @no_stale_bestmove.
Check @no_stale_bestmove.
Print Assumptions no_stale_bestmove.
Definition C16_superseded_never_answered := @superseded_never_answered.
Check @superseded_never_answered.
Check @active_is_latest.

(** every isready is answered by readyok in the same atomic step of the loop *)
Definition C16_isready_answered := @isready_answered_step.
Check @isready_answered_step.
Check @isready_answered.

(** no deadlock: every reachable state has terminated or can step; the loop blocked in Halt always has
    a way forward, which stays enabled (so Halt returns under weak fairness); the search never blocks *)
Definition C16_no_deadlock := @no_deadlock.
Check @no_deadlock.
Print Assumptions no_deadlock.
Check @halt_way_forward.
Check @search_never_blocks.
Check @haltinit_persists.
Check @haltdone_persists.

(** clean shutdown on quit / end of input: nothing more is emitted; the only way out is the exited
    state with the output closed *)
Definition C16_quit_terminates := @quit_terminates.
Check @quit_terminates.
Check @closing_can_finish.
Check @exited_silent.

(** the hand-off as found (before the fix: commit) reaches a crash, a stale answer, and an unanswered
    go through a stale movetime timer - computed traces *)
Check legacy_send_on_closed.
Check legacy_stale_bestmove.
Check legacy_stale_timer.
(** sanity: every state of two scripts under all interleavings (3289 / 7457 states) passes all checks *)
Check explore_script1.
Check explore_script2.

(** the whole observable behaviour at once: every output trace the transition system can produce - any
    script, any interleaving, up to the exit of the loop - is accepted by the trace acceptor [obs_ok], which
    is the executable statement of C04/C16 on command/output traces (k-th readyok answers the k-th isready;
    info/bestmove only while a go is pending; at most one bestmove per go, none after a superseding command;
    a stop or a book go is answered before the next command is consumed; nothing after the loop exited).
    The same acceptor is run on the traces recorded from the real driver on every check. *)
Definition C16_obs_sound := @obs_sound.
Check @obs_sound.
Check @obs_counts_sound.
Check @obs_prefix_extends.
Check @obs_ok_iff.
Check sound_nonvacuous.
Check exit_hypothesis_needed.
Print Assumptions obs_sound.
Print Assumptions obs_counts_sound.
