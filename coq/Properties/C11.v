(** C11 — The transposition table is transparent.
    Lemmas/SearchContract.v, table part: under the property's own preconditions (HashValue: the hash
    identifies the search value of a node - position-determined evaluation, no history draw inside
    the tree, no collision) and the table law TTLaw (every entry readable after a write is the
    written one or was readable before - any size, any replacement policy), the invariant
    TTInv (every exact entry is the true search value of its position at its depth) is preserved by
    every run - completed or halted - and the contract / full-window value / PV theorems hold with
    the table exactly as without: on the first and, by induction over a list of searches sharing the
    table, on every later search. *)
From Coq Require Import NArith ZArith List Bool.
From Morlock.Model Require Import Score Search.
From Morlock.Lemmas Require Import SearchScore SearchContract SearchToy.

(** every run preserves "exact entries are true values" and hands the board back *)
Definition C11_exact_entries_true := @ab_frame.
Check @ab_frame.
Print Assumptions ab_frame.

(** the search theorems with a table: same value as the table-free reference *)
Definition C11_search_with_table := @ab_search_spec.
Check @ab_search_spec.

(** non-vacuity incl. table reuse across searches (depth 2 then 3, 3 then 3) *)
Definition C11_nonvacuous := toy_search_spec.

(** * For the real board model and the concrete table of Model/TT.v: the table law is PROVED
    (board_tt_law); HashValue (the hash identifies the search value) stays the hypothesis the property
    itself makes. *)
From Morlock.Lemmas Require Import SearchBoardInst1 SearchBoardInst2 SearchBoardInst SearchBoardInst5.
Definition C11_board_tt_law := board_tt_law.
Check board_tt_law.
Print Assumptions board_tt_law.
Definition C11_board_search_spec := @board_search_spec.
Check @board_search_spec.
Print Assumptions board_search_spec.
Definition C11_board_nonvacuous := kr_run_2_table.
