(** C09 — Search scores form a total order that negation reverses.
    Statements only; every proof is [exact] of a lemma from Lemmas/ScoreLemmas.v.
    [valid] = what the constructors build (won, lost, mate-in-k with k in [-127,127]\{0}, heuristic
    values over float32 except NaN); [inc_ok] additionally keeps |k| <= 126 so that adding a ply
    stays inside int8.  The int8 boundary itself is refuted below (known finding). *)
From Coq Require Import ZArith Bool.
From Morlock.Model Require Import Score.
From Morlock.Lemmas Require Import ScoreLemmas.
From Morlock.Impl Require Import ImplScore.
Open Scope Z_scope.

(** The order is the lexicographic order of the key
    lost (0) < mated in k (1, k ascending) < heuristic (2, numeric) < mating in k (3, k descending) < won (4). *)
Theorem C09_order_is_rank : forall a b, valid a = true -> valid b = true ->
  less a b = rank_lt (rank a) (rank b).
Proof. exact less_rank. Qed.
Print Assumptions C09_order_is_rank.

Theorem C09_irreflexive : forall a, valid a = true -> less a a = false.
Proof. exact less_irrefl. Qed.
Print Assumptions C09_irreflexive.

Theorem C09_transitive : forall a b c, valid a = true -> valid b = true -> valid c = true ->
  less a b = true -> less b c = true -> less a c = true.
Proof. exact less_trans. Qed.
Print Assumptions C09_transitive.

Theorem C09_total : forall a b, valid a = true -> valid b = true ->
  (less a b = true /\ go_eq a b = false /\ less b a = false) \/
  (less a b = false /\ go_eq a b = true /\ less b a = false) \/
  (less a b = false /\ go_eq a b = false /\ less b a = true).
Proof. exact less_trichotomy. Qed.
Print Assumptions C09_total.

Theorem C09_chain : forall (j k x y : Z),
    1 <= j -> j < k -> k <= 127 ->
    valid (heuristic x) = true -> valid (heuristic y) = true -> f_lt x y = true ->
    less neginf_score (mate_in (-j)) = true /\
    less (mate_in (-j)) (mate_in (-k)) = true /\
    less (mate_in (-k)) (heuristic x) = true /\
    less (heuristic x) (heuristic y) = true /\
    less (heuristic y) (mate_in k) = true /\
    less (mate_in k) (mate_in j) = true /\
    less (mate_in j) inf_score = true.
Proof. exact less_chain. Qed.
Print Assumptions C09_chain.

Theorem C09_negate_involutive : forall a, valid a = true -> negate (negate a) = a.
Proof. exact negate_involutive. Qed.
Print Assumptions C09_negate_involutive.

Theorem C09_negate_reverses : forall a b, valid a = true -> valid b = true ->
  less (negate b) (negate a) = less a b.
Proof. exact negate_reverses. Qed.
Print Assumptions C09_negate_reverses.

Theorem C09_inc_monotone : forall a b, valid a = true -> valid b = true ->
  inc_ok a = true -> inc_ok b = true -> less (inc a) (inc b) = less a b.
Proof. exact inc_monotone. Qed.
Print Assumptions C09_inc_monotone.

Theorem C09_max : forall a b, (less a b = true -> smax a b = b) /\ (less a b = false -> smax a b = a).
Proof. exact max_spec. Qed.
Theorem C09_min : forall a b, (less a b = true -> smin a b = a) /\ (less a b = false -> smin a b = b).
Proof. exact min_spec. Qed.
Theorem C09_max_upper : forall a b, valid a = true -> valid b = true ->
  less (smax a b) a = false /\ less (smax a b) b = false.
Proof. exact max_upper. Qed.
Theorem C09_min_lower : forall a b, valid a = true -> valid b = true ->
  less a (smin a b) = false /\ less b (smin a b) = false.
Proof. exact min_lower. Qed.
Print Assumptions C09_max_upper.

(** Non-vacuity: the hypotheses are met by non-trivial scores. *)
Example C09_nonvacuous :
  valid (mate_in (-4)) = true /\ valid (mate_in 127) = true /\ valid (heuristic 1075838976) = true /\
  inc_ok (mate_in (-126)) = true /\ less (mate_in (-2)) (mate_in (-4)) = true.
Proof. vm_compute. repeat split; reflexivity. Qed.

(** The int8 boundary: no 8-bit representation can keep these; known finding #15. *)
Example C09_negate_boundary_refuted : negate (mate_in (-128)) = mate_in (-128).
Proof. reflexivity. Qed.
Example C09_inc_boundary_refuted :
  less zero_score (mate_in 127) = true /\ less (inc zero_score) (inc (mate_in 127)) = false.
Proof. vm_compute. split; reflexivity. Qed.

(** The order as found in the pinned snapshot is refuted (finding #1, repaired by a fix: commit). *)
Example C09_legacy_refuted :
  less_legacy (mate_in (-2)) (mate_in (-4)) = false /\ less_legacy (mate_in (-4)) (mate_in (-2)) = true.
Proof. vm_compute. split; reflexivity. Qed.

(** Tie to the code (re-checked on every run against the regenerated tables). *)
Definition C09_impl_obligations :=
  (impl_less, impl_negate, impl_inc, impl_mate_distance, impl_max, impl_min, impl_go_eq, impl_score_domain).
