(** C03 — Alpha-beta returns the exact minimax value and a sound principal variation.
    Same setting as C13 (Lemmas/SearchContract.v): for every game satisfying the representation laws,
    every depth (qfuel + depth <= 127), every move ordering and exploration predicate, the
    full-window search of Model/Search.v returns the reference minimax value [mm] (mate scores =
    forced mate against the longest defence by construction of T; stalemate and drawn lines count 0;
    the root is expanded even when a draw can be claimed there), the principal variation is a legal
    line no longer than the depth whose first move attains the value, and the board is handed back
    at the same node (result flag: a draw claimable on entry is still claimable). *)
From Coq Require Import NArith ZArith List Bool.
From Morlock.Model Require Import Score Search.
From Morlock.Lemmas Require Import SearchScore MoveListPerm SearchContract SearchToy.

Definition C03_full_window_is_minimax := @ab_full_window.
Check @ab_full_window.
Print Assumptions ab_full_window.

Definition C03_pv_sound := @pv_sound.
Check @pv_sound.
Print Assumptions pv_sound.

(** AlphaBeta.Search as a whole: board handed back, halted flag, value, PV *)
Definition C03_search_spec := @ab_search_spec.
Check @ab_search_spec.
Print Assumptions ab_search_spec.

(** move ordering is irrelevant for the value: MoveList.Next returns a permutation of the moves *)
Theorem C03_movelist_perm : forall l prio, Permutation.Permutation (movelist l prio) l.
Proof. exact movelist_perm. Qed.
Print Assumptions C03_movelist_perm.

Definition C03_nonvacuous := (toy_search_spec_a, toy_search_spec).

(** * The same theorems for the real board model (heap board of Model/Board.v, search_board of
    Model/SearchBoard.v with eval.Material, FullExploration, captures-only quiescence): every
    representation law is discharged in Lemmas/SearchBoardInst1-4.v from the C08 (heap board), C02
    (legal positions closed under moves) and C01 (pseudo-legal shape) theorems.  [BAt p g]: the board
    g is well formed, abstracts to the game node p and the game invariant holds (legal position, a
    side that has castled holds no rights); [b_mm] is the reference minimax on abstract game nodes. *)
From Morlock.Lemmas Require Import SearchBoardInst1 SearchBoardInst SearchBoardInst5.
Definition C03_board_full_window := @board_full_window_nott.
Check @board_full_window_nott.
Print Assumptions board_full_window_nott.
Definition C03_board_pv_sound := @board_pv_sound_nott.
Check @board_pv_sound_nott.
Definition C03_board_search_spec := @board_search_spec_nott.
Check @board_search_spec_nott.
Print Assumptions board_search_spec_nott.
(** non-vacuity on the real board: the initial position satisfies the hypotheses; K+R v K computed *)
Check initial_board_At.
Check kr_theorem_applied.
Check kr_run_2.

(** * Against the specification: the value returned is the minimax value of the FIDE game tree

    The theorems above speak about the reference value [b_mm] over the model's own tree.
    Lemmas/MinimaxRefines1-6.v show that this value IS [spec_mm] of Spec/Minimax.v over the
    specification game of Spec/Game.v (mailbox board, FIDE move rules, repetition / fifty-move /
    insufficient-material draws, mate and stalemate), for the engine's configuration (material leaf,
    full exploration, captures-only quiescence): same legal moves up to a permutation
    ([legal_permutation], [spec_legal_nodup]), same draw verdicts at the children ([RG_child]), same
    terminal values, and the fold over the children does not depend on their order up to [go_eq]
    ([sfold_same_set]; Leibniz equality fails between +0.0 and -0.0: [sfold_perm_not_leibniz]).
    Side condition [depth = 0 -> use_q = true -> drawn_here gs = false]: a depth-0 "search" of a root at
    which a draw can be claimed is a bare quiescence call of a cleared root; the specification value
    there is 0 ([depth0_corner]); unreachable through iterative deepening, which starts at depth 1. *)
From Morlock.Lemmas Require Import MinimaxRefines1 MinimaxRefines2 MinimaxRefines3 MinimaxRefines4 MinimaxRefines5
  MinimaxRefines MinimaxRefines6.
Definition C03_search_is_spec_minimax := @board_search_is_spec_minimax.
Check @board_search_is_spec_minimax.
Check @board_search_is_spec_minimax_table.
Check @board_search_is_spec_minimax_game.
Check @new_board_search_is_spec_minimax.
Check @b_mm_is_spec_mm.
Check @b_mm_is_spec_mm_material.
Check @legal_permutation.
Check @spec_legal_nodup.
Check @RG_new.
Check @RG_child.
Check @RG_of_Game.
Check @sfold_same_set.
Check sfold_perm_not_leibniz.
Check depth0_corner.
Check kr_values.
Check kr_applied.
Print Assumptions board_search_is_spec_minimax.
Print Assumptions board_search_is_spec_minimax_table.
Print Assumptions new_board_search_is_spec_minimax.
