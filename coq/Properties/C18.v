(** C18 — Searching is deterministic and never touches the engine's own game.

    "With evaluation noise off and no hash table carried over, what a search returns (score, principal
    variation, node count) depends only on the game state and the depth: repeating it, running other
    searches before or alongside it on other engines, or using a different hash seed does not change it;
    with noise on it is reproducible from the seed.  Analysing a position never alters the engine's own
    game state."

    The model search (Model/Search.v on the heap board of Model/Board.v, compared with the Go search node
    for node on every run) is a Gallina function, so "repeating it on the same value gives the same
    answer" is reflexivity; the content of the property is WHICH parts of the board value the answer does
    not depend on, and that the values the engine hands to successive searches are equal in the rest:
      - [zrel z1 z2 g1 g2]: two heap boards that carry the same legal game (same chain of positions and
        clocks, next moves, side, ply, castled flags, result) hashed with two key tables, i.e. equal in
        everything except hashes and heap addresses ([zrel_spelled_out]);
      - the answer (node count, score, PV, halted, number of polls) is the same on [zrel] boards - hash
        collisions included (an all-zero key table is an instance: [all_hashes_collide]);
      - new boards, replayed games and forks of one game are [zrel] whatever was searched before on the
        heap; a search on a fork leaves the engine's own board - every board whose history does not run
        through the searched head node - unchanged in every getter.
    Evaluation noise (math/rand seeded per engine) is not modelled: reproducibility from the seed is
    checked on the implementation only.  Concurrent engines share no state in the model by construction
    (each has its own heap, table and evaluator); for the Go code that is checked under the race detector. *)
From Morlock.Model Require Import Bits Score Attacks Move Position Abs Zobrist Board Search TT SearchBoard.
From Morlock.Lemmas Require Import DeterminismLemmas.

(** a different hash seed does not change the answer (any policy/leaf blind to hashes, any cancellation
    oracle, window, depth, with or without quiescence) *)
Definition C18_seed := @C18_seed_independent.
Check @C18_seed_independent.
Check @C18_policies_blind.
Check @C18_same_game.

(** the answer is a function of the hash-free game state; other searches before it do not matter *)
Check @C18_function_of_state.
Check @analysis_repeatable.
Check @new_board_zrel.
Check @fork_zrel.
Check @search_hands_back.

(** analysing never alters the engine's own game *)
Definition C18_isolated := @C18_analysis_isolated.
Check @C18_analysis_isolated.
Check @search_passive_unchanged.
Check @search_frame.

(** the operations of the search answer alike on related boards *)
Check @C18_push.
Check @C18_pop.
Check @C18_mated.
Check @C18_adjudicate.

(** non-vacuity (computed) and the one clause that is NOT a theorem *)
Check kr_two_tables.
Check kr_two_tables_by_theorem.
Check all_hashes_collide.
Check returned_board_needs_rootflag.
Check @search_repeat_on_returned_board_partial.

Print Assumptions C18_seed_independent.
Print Assumptions C18_function_of_state.
Print Assumptions C18_analysis_isolated.
Print Assumptions analysis_repeatable.
Print Assumptions search_passive_unchanged.
Print Assumptions C18_same_game.
