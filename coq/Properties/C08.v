(** C08 — Take-back and fork: history operations are exact inverses and isolated.
    Statements about the heap model of Model/Board.v, in which a board and its forks share history
    nodes exactly as the Go pointers do.  [view h b] collects everything a board reports (position,
    turn, hash, clock, ply, full moves, castled flags, last / second-to-last move, HasMoved k for all
    k, repetition counts, result, and the whole chain of history nodes below the head);
    [beq] = equal views, [beq_nr] = equal views up to the result field (PopMove resets the result to
    Undecided: "a not-drawn result").  Proofs in Lemmas/BoardHeap{1,2,3}.v. *)
From Coq Require Import NArith ZArith List Bool.
From Morlock.Model Require Import Bits Attacks Move Position Zobrist Board.
From Morlock.Lemmas Require Import BoardHeap1 BoardHeap2 BoardHeap3 BoardHeap4.
Import ListNotations.

(** Taking back a move restores every getter; the heap itself is restored up to one garbage node.
    [castle_ok]: a side that has already castled does not castle again (automatic in legal games:
    castling drops both rights of the side; needed because PopMove clears the has-castled flag
    unconditionally - see BoardHeap4.castle_twice_counterexample for the non-legal FEN that shows it). *)
Theorem C08_pop_push_id : forall z h b m h1 b1, wf h b -> castle_ok b m ->
  push_move z h b m = (h1, b1, true) ->
  exists h2 b2, pop_move h1 b1 = (h2, b2, m, true) /\ wf h2 b2 /\
    view_eq_nr (view h2 b2) (view h b) /\ b_result b2 = mkResult Undecided NoReason /\
    b_current b2 = b_current b /\ n_next (hnode h2 (b_current b2)) = no_move /\
    exists n, h2 = h ++ [n].
Proof. exact pop_push_id. Qed.
Print Assumptions C08_pop_push_id.

(** at any nesting depth: every balanced sequence of pushes, pops and adjudications is the identity *)
Theorem C08_balanced_id : forall z ops h b h2 b2, wf h b ->
  run true z ops h b 0%nat = Some (h2, b2, 0%nat) ->
  run_plain z ops h b = (h2, b2) /\ wf h2 b2 /\ beq_nr h2 b2 h b.
Proof. exact balanced_id. Qed.
Print Assumptions C08_balanced_id.

(** ... so that play continues identically afterwards *)
Theorem C08_balanced_then_push : forall z ops h b h2 b2 m, wf h b ->
  run true z ops h b 0%nat = Some (h2, b2, 0%nat) -> blocked (b_result b2) = blocked (b_result b) ->
  forall h3 b3 ok h3' b3' ok', push_move z h2 b2 m = (h3, b3, ok) -> push_move z h b m = (h3', b3', ok') ->
  ok = ok' /\ beq_nr h3 b3 h3' b3'.
Proof. exact balanced_then_push. Qed.
Print Assumptions C08_balanced_then_push.

(** a fork reports what its parent reports, and both stay well-formed *)
Theorem C08_fork_shares_past : forall h b h1 f, wf h b -> fork h b = (h1, f) ->
  wf h1 f /\ wf h1 b /\ beq h1 f h b /\ beq h1 b h b.
Proof. exact fork_shares_past. Qed.
Print Assumptions C08_fork_shares_past.

(** both detect repetitions against their common past: the same move gets the same verdict *)
Theorem C08_fork_same_future : forall z h b h1 f m, wf h b -> fork h b = (h1, f) ->
  forall h2 f2 ok h2' b2 ok', push_move z h1 f m = (h2, f2, ok) -> push_move z h b m = (h2', b2, ok') ->
  ok = ok' /\ beq h2 f2 h2' b2.
Proof. exact fork_same_future. Qed.
Print Assumptions C08_fork_same_future.

(** operations on the fork (never popping below the fork point) do not change the original ... *)
Theorem C08_fork_isolated_original : forall z h b h1 f ops h2 f2 d2, wf h b -> fork h b = (h1, f) ->
  run false z ops h1 f 0%nat = Some (h2, f2, d2) ->
  wf h2 f2 /\ wf h2 b /\ beq h2 b h1 b /\ beq h2 b h b.
Proof. exact fork_isolated_original. Qed.
Print Assumptions C08_fork_isolated_original.

(** ... and vice versa *)
Theorem C08_fork_isolated_fork : forall z h b h1 f ops h2 b2 d2, wf h b -> fork h b = (h1, f) ->
  run false z ops h1 b 0%nat = Some (h2, b2, d2) ->
  wf h2 b2 /\ wf h2 f /\ beq h2 f h1 f.
Proof. exact fork_isolated_fork. Qed.
Print Assumptions C08_fork_isolated_fork.

(** the invariant is established by NewBoard and kept by every operation *)
Theorem C08_wf_new : forall z pos turn np fm h1 b1, (turn = White \/ turn = Black) ->
  new_board z [] pos turn np fm = (h1, b1) -> wf h1 b1.
Proof. intros. eapply wf_new; eauto. Qed.
Theorem C08_wf_push : forall z h b m h1 b1 ok, wf h b -> push_move z h b m = (h1, b1, ok) -> wf h1 b1.
Proof. exact wf_push_move. Qed.
Theorem C08_wf_pop : forall h b h1 b1 m ok, wf h b -> pop_move h b = (h1, b1, m, ok) -> wf h1 b1.
Proof. exact wf_pop_move. Qed.
Print Assumptions C08_wf_push.
