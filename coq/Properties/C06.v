(** C06 — Attack relation matches its geometric definition.
    For every square, piece kind and board occupancy (all 2^64 of them: lifting argument, no
    enumeration of occupancies) the attack boards computed through the rotated bitboards and the
    lookup tables DUMPED FROM THE RUNNING CODE (gen/) are exactly the squares the movement rule
    reaches (Spec/Chess.v attacks_from: ray walking, sliders stop at and include the first occupied
    square).  Statements only; proofs in Lemmas/AttackGeometry*.v. *)
From Coq Require Import NArith ZArith List Bool.
From Morlock.Model Require Import Bits Attacks.
From Morlock.Spec Require Import Chess.
From Morlock.Model Require Import Move Position Abs.
From Morlock.Lemmas Require Import AttackGeometry AttackGeometry_Extra PositionLemmas MoveGen1 MoveGen2.
From Morlock.Impl Require Import ImplBoard.
Import ListNotations.
Open Scope N_scope.

Definition occ_of (occ : N) : nat -> bool := fun s => N.testbit occ (N.of_nat s).

Theorem C06_rook : forall occ sq t, sq < 64 ->
  N.testbit (rook_attackboard (new_rotated occ) sq) t =
  (t <? 64) && mem_nat (N.to_nat t) (attacks_from (occ_of occ) Wh R (N.to_nat sq)).
Proof. exact AttackGeometry2.rook_attack_geometric. Qed.
Print Assumptions C06_rook.

Theorem C06_bishop : forall occ sq t, sq < 64 ->
  N.testbit (bishop_attackboard (new_rotated occ) sq) t =
  (t <? 64) && mem_nat (N.to_nat t) (attacks_from (occ_of occ) Wh Bi (N.to_nat sq)).
Proof. exact AttackGeometry2.bishop_attack_geometric. Qed.
Print Assumptions C06_bishop.

Theorem C06_queen : forall occ sq t, sq < 64 ->
  N.testbit (queen_attackboard (new_rotated occ) sq) t =
  (t <? 64) && mem_nat (N.to_nat t) (attacks_from (occ_of occ) Wh Q (N.to_nat sq)).
Proof. exact AttackGeometry2.queen_attack_geometric. Qed.
Print Assumptions C06_queen.

Theorem C06_king : forall sq t, sq < 64 ->
  N.testbit (king_attackboard sq) t =
  (t <? 64) && mem_nat (N.to_nat t) (attacks_from (fun _ => false) Wh K (N.to_nat sq)).
Proof. exact AttackGeometry3.king_attack_geometric. Qed.
Print Assumptions C06_king.

Theorem C06_knight : forall sq t, sq < 64 ->
  N.testbit (knight_attackboard sq) t =
  (t <? 64) && mem_nat (N.to_nat t) (attacks_from (fun _ => false) Wh Kn (N.to_nat sq)).
Proof. exact AttackGeometry3.knight_attack_geometric. Qed.
Print Assumptions C06_knight.

Theorem C06_pawn_captures : forall c pawns t, (c = 0 \/ c = 1) -> pawns < 2 ^ 64 ->
  N.testbit (pawn_captureboard c pawns) t =
  (t <? 64) && existsb (fun s => N.testbit pawns (N.of_nat s) &&
     mem_nat (N.to_nat t) (attacks_from (fun _ => false) (if c =? 0 then Wh else Bl) P s)) all_squares.
Proof. exact AttackGeometry3.pawn_capture_geometric. Qed.
Print Assumptions C06_pawn_captures.

(** the incrementally maintained rotated words stay the images of the occupancy *)
Theorem C06_rotated_lockstep : forall occ sq, sq < 64 ->
  rot_xor (new_rotated occ) sq = new_rotated (N.lxor occ (bitmask sq)).
Proof. exact AttackGeometry1.rotated_xor_lockstep. Qed.
Print Assumptions C06_rotated_lockstep.

(** the emission loops visit exactly the set bits, each once, in ascending order *)
Theorem C06_bits_asc : forall b s, In s (bits_asc b) <-> N.testbit b s = true.
Proof. exact bits_asc_spec. Qed.
Theorem C06_bits_asc_nodup : forall b, NoDup (bits_asc b).
Proof. exact bits_asc_nodup. Qed.
Print Assumptions C06_bits_asc.

(** Derived queries, for every position satisfying the representation invariant:
    "is this square attacked / defended" and "is the king in check" agree with the specification
    (some piece of the attacking colour geometrically attacks the square). *)
Theorem C06_is_attacked : forall pos c sq, Inv pos -> (c = 0 \/ c = 1) -> sq < 64 ->
  is_attacked pos c sq = attacked (brd (abs_pos pos)) (other (color_of c)) (N.to_nat sq).
Proof. exact is_attacked_iff. Qed.
Print Assumptions C06_is_attacked.

Theorem C06_is_checked : forall pos c, Inv pos -> (c = 0 \/ c = 1) -> popcount (pget pos c King) = 1 ->
  is_checked pos c = in_check (brd (abs_pos pos)) (color_of c).
Proof. exact is_checked_iff. Qed.
Print Assumptions C06_is_checked.

(** Non-vacuity: a rook on d4 (square 28) with blockers on d6 and f4 *)
Example C06_example :
  bits_asc (rook_attackboard (new_rotated (N.lor (bitmask 28) (N.lor (bitmask 44) (bitmask 26)))) 28)
  = [4; 12; 20; 26; 27; 29; 30; 31; 36; 44].
Proof. vm_compute. reflexivity. Qed.

(** * The derived queries of pkg/eval: "which pieces can capture on this square" (FindCapture) and "which
    pieces are pinned against this king or queen" (FindPins), Model/Queries.v, against their definition on
    the mailbox board (Lemmas/QueriesLemmas1-5.v).  The model functions are compared with the Go functions
    on every run (`captures` / `pins` cases). *)
From Morlock.Lemmas Require Import QueriesLemmas.
Check @QStatements.find_capture_spec.
Check @QStatements.find_capture_exact.
Check @QStatements.find_capture_squares_ascend.
Check @QStatements.pawn_reverse.
Check @QStatements.find_pins_spec.
Check @QStatements.rook_candidate_one_bit.
Check @QStatements.bishop_candidate_one_bit.
Print Assumptions QStatements.find_capture_spec.
Print Assumptions QStatements.find_pins_spec.
