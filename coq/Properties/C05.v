(** C05 — Game results: repetition, fifty-move, insufficient material, mate and stalemate.
    A game is played on a heap board (Model/Board.v) from [new_board z [] pos turn np fm] for a legal
    start position, any set-up clock 0 <= np <= max_int (= math.MaxInt = 2^63 - 1: every value a Go [int]
    accepted by fen.Decode / NewBoard can take), any move number and ANY key table with zt_ok, by
    successive successful pushes of pseudo-legal moves ([played ms h b]), of ANY length; [sg ms] is the
    specification game (Spec/Game.v) after the same moves.
    The half-move clock of the board saturates at max_int (updateNoProgress); the clock of the
    specification game is an unbounded integer.  The refinement relation is
    [Z.of_N (b_noprogress h b) = Z.min (g_clock g) (Z.of_N max_int)] ([clk_rel], [clock_refines]).
    Proofs in Lemmas/GameLemmas1-8.v. *)
From Coq Require Import NArith ZArith List Bool.
From Morlock.Model Require Import Bits Attacks Move Position Zobrist Board Abs.
From Morlock.Spec Require Import Chess Game.
From Morlock.Lemmas Require Import GameLemmas2 GameLemmas5 GameLemmas6 GameLemmas7 GameLemmas8.
Import ListNotations.

(** after every move: a draw condition holding for the position just reached (three / five
    occurrences in the game, start position included; clock >= 100 counted on from set-up;
    insufficient material after a capture or under-promotion) implies the board reports Draw, and the
    board reports Draw only in a game in which some condition has held (g_drawn) *)
Definition C05_drawn_iff := @drawn_iff.
Check @drawn_iff.
Print Assumptions drawn_iff.

(** one push: the board refines g_play; the result is result_after (conditions now) (result before) *)
Definition C05_push_refines := @push_refines.
Check @push_refines.
Print Assumptions push_refines.

(** the reason reported: rules applied in the order repetition, no-progress, insufficient material *)
Definition C05_push_reason := @push_reason.
Check @push_reason.

(** the ingredients *)
Definition C05_hash_consistent := @hash_consistent.       (* every history node carries the scratch hash *)
Definition C05_rep_map_counts := @rep_map_counts.         (* repetition map = number of nodes per hash *)
(** the next two carry the premise [b_unsat h b]: the clock is below saturation ([b_noprogress h b < max_int])
    or the history has at most max_int + 1 nodes (true of every game of at most 2^63 - 1 moves:
    [unsat_of_length], [ipc_counts_len]).  The results reported ([drawn_iff], [push_refines],
    [played_result_exact]) do NOT depend on it: with a saturated clock the fifty-move rule overwrites
    whatever the recount said. *)
Definition C05_window_complete := @window_complete.       (* no equal position beyond the clock window *)
Check @window_complete.
Definition C05_ipc_counts := @ipc_counts.                 (* exact recount = occurrences of the spec *)
Check @ipc_counts.
Print Assumptions ipc_counts.
Definition C05_ipc_counts_len := @ipc_counts_len.
Check @ipc_counts_len.

(** the clock of the board is the specification's clock capped at max_int, never exceeds max_int, and the
    fifty-move test reads the same on both sides; at or beyond the limit the board reports a draw *)
Definition C05_clock_refines := @clock_refines.
Check @clock_refines.
Print Assumptions clock_refines.
Definition C05_saturated_clock_still_draws := @saturated_clock_still_draws.
Check @saturated_clock_still_draws.
Print Assumptions saturated_clock_still_draws.
Definition C05_played_result_exact := @played_result_exact.
Check @played_result_exact.
Print Assumptions played_result_exact.

(** irreversible moves separate: the potential never increases and strictly decreases on every
    capture / pawn move, so the clock-bounded walk sees every earlier occurrence *)
Definition C05_potential_step := @potential_step.
Check @potential_step.

Theorem C05_insufficient_iff : forall pos turn, wf_b pos turn = true ->
  has_insufficient_material pos = insufficient (brd (abs_pos pos)).
Proof. exact insufficient_iff_wf. Qed.
Print Assumptions C05_insufficient_iff.

(** with no legal move available: checkmate iff the side to move is in check, stalemate otherwise *)
Definition C05_adjudicate_spec := @adjudicate_spec.
Check @adjudicate_spec.
Print Assumptions adjudicate_spec.

(** half-move clock = half-moves since the last pawn move or capture, saturating at max_int (also C14) *)
Definition C05_clock_spec := @clock_spec.
Check @clock_spec.

(** histories shared by forked boards *)
Definition C05_fork_game := @fork_game.
Check @fork_game.
Print Assumptions fork_game.

(** non-vacuity and the repaired defects *)
Check threefold_game.
Check legacy_window_misses_threefold.
Check legacy_castling_resets_clock.
Check legacy_mask_wrong.
(** the clock at the top of the Go int range (FEN 4k3/8/8/8/8/8/8/4K2R w - - 9223372036854775807 1): the
    saturating counter keeps the draw, the wrapping counter of the snapshot loses it *)
Check clock_saturates_example.
Check clock_saturates_game.
Check clock_wrap_legacy_refuted.
Check wrap64_not_drawn_when_due.
Print Assumptions clock_saturates_example.
Print Assumptions clock_wrap_legacy_refuted.
