(** Tie (a) for pkg/eval/score.go: the model functions of Model/Score.v equal the behaviour
    tables dumped from the running code, on every entry (kernel-checked by vm_compute). *)
From Coq Require Import ZArith Bool List.
From Morlock.gen Require Import GenScore GenConsts.
From Morlock.Model Require Import Score.
Import ListNotations.
Open Scope Z_scope.

Definition stype_of_Z (z : Z) : stype :=
  match z with 1 => Heuristic | 2 => MateInX | 3 => Inf | 4 => NegInf | _ => Invalid end.
Definition of_triple (t : Z * Z * Z) : score := let '(ty, m, b) := t in mkScore (stype_of_Z ty) m b.

Lemma score_type_consts :
  (g_c_Invalid, g_c_Heuristic, g_c_MateInX, g_c_Inf, g_c_NegInf) = (0, 1, 2, 3, 4)%N.
Proof. reflexivity. Qed.

Definition scores := map of_triple g_scores.
Definition scores_small := map of_triple g_scores_small.

(** pointwise check of a unary function against a table *)
Definition tbl1_ok {A B} (eqb : B -> B -> bool) (f : A -> B) (xs : list A) (ys : list B) : bool :=
  (length xs =? length ys)%nat && forallb (fun p => eqb (f (fst p)) (snd p)) (combine xs ys).
Definition tbl2_ok {A B} (eqb : B -> B -> bool) (f : A -> A -> B) (xs : list A) (rows : list (list B)) : bool :=
  (length xs =? length rows)%nat &&
  forallb (fun p => tbl1_ok eqb (f (fst p)) xs (snd p)) (combine xs rows).

Lemma impl_less : tbl2_ok Bool.eqb less scores g_less_rows = true.
Proof. vm_compute. reflexivity. Qed.

Lemma impl_negate : tbl1_ok score_eqb negate scores (map of_triple g_negate) = true.
Proof. vm_compute. reflexivity. Qed.

Lemma impl_inc : tbl1_ok score_eqb inc scores (map of_triple g_inc) = true.
Proof. vm_compute. reflexivity. Qed.

Definition zb_eqb (a b : Z * bool) : bool := (fst a =? fst b) && Bool.eqb (snd a) (snd b).
Lemma impl_mate_distance : tbl1_ok zb_eqb mate_distance scores g_matedist = true.
Proof. vm_compute. reflexivity. Qed.

Lemma impl_max : tbl2_ok score_eqb smax scores_small (map (map of_triple) g_max_rows) = true.
Proof. vm_compute. reflexivity. Qed.

Lemma impl_min : tbl2_ok score_eqb smin scores_small (map (map of_triple) g_min_rows) = true.
Proof. vm_compute. reflexivity. Qed.

Lemma impl_go_eq : tbl2_ok Bool.eqb go_eq scores_small g_eq_rows = true.
Proof. vm_compute. reflexivity. Qed.

(** The table covers every int8 mate value, won, lost, invalid and the float boundary set. *)
Lemma impl_score_domain : (length scores = 276)%nat /\ (length scores_small = 34)%nat.
Proof. split; reflexivity. Qed.
