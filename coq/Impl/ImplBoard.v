(** Tie (a) for pkg/board: constants, finite-domain helper functions and table shapes of the model
    equal the values dumped from the running code (kernel-checked, exhaustive over the stated domains). *)
From Coq Require Import NArith ZArith List Bool.
From Morlock.gen Require Import GenTables GenRookRank GenRookFile GenBishopL GenBishopR GenConsts GenMove.
From Morlock.Model Require Import Bits Attacks Move Position Board.
Import ListNotations.
Open Scope N_scope.

Fixpoint lN_eqb (a b : list N) : bool :=
  match a, b with [], [] => true | x :: a', y :: b' => (x =? y) && lN_eqb a' b' | _, _ => false end.

(** constants *)
Lemma impl_consts_pieces :
  lN_eqb [g_c_NoPiece; g_c_Pawn; g_c_Bishop; g_c_Knight; g_c_Rook; g_c_Queen; g_c_King; g_c_ZeroPiece; g_c_NumPieces]
         [NoPiece; Pawn; Bishop; Knight; Rook; Queen; King; 1; 7] = true.
Proof. vm_compute. reflexivity. Qed.
Lemma impl_consts_colors : lN_eqb [g_c_White; g_c_Black; g_c_NumColors] [White; Black; 2] = true.
Proof. vm_compute. reflexivity. Qed.
Lemma impl_consts_movetypes :
  lN_eqb [g_c_Normal; g_c_Push; g_c_Jump; g_c_EnPassant; g_c_QueenSideCastle; g_c_KingSideCastle; g_c_Capture; g_c_Promotion; g_c_CapturePromotion]
         [Normal; Push; Jump; EnPassant; QueenSideCastle; KingSideCastle; Capture; Promotion; CapturePromotion] = true.
Proof. vm_compute. reflexivity. Qed.
Lemma impl_consts_castling :
  lN_eqb [g_c_WhiteKingSideCastle; g_c_WhiteQueenSideCastle; g_c_BlackKingSideCastle; g_c_BlackQueenSideCastle; g_c_NumCastling]
         [WhiteKingSideCastle; WhiteQueenSideCastle; BlackKingSideCastle; BlackQueenSideCastle; 16] = true.
Proof. vm_compute. reflexivity. Qed.
Lemma impl_consts_outcomes :
  lN_eqb [g_c_Unknown; g_c_Undecided; g_c_WhiteWins; g_c_BlackWins; g_c_Draw] [Unknown; Undecided; WhiteWins; BlackWins; Draw] = true.
Proof. vm_compute. reflexivity. Qed.
Lemma impl_consts_limits :
  lN_eqb [g_c_repetition3Limit; g_c_repetition5Limit; g_c_noprogressPlyLimit; g_c_NumSquares] [repetition3Limit; repetition5Limit; noprogressPlyLimit; 64] = true.
Proof. vm_compute. reflexivity. Qed.
Lemma impl_consts_masks :
  lN_eqb [g_c_whiteSquareMask; g_c_whiteKingSideCastlingMask; g_c_whiteQueenSideCastlingMask; g_c_blackKingSideCastlingMask; g_c_blackQueenSideCastlingMask]
         [whiteSquareMask; whiteKingSideCastlingMask; whiteQueenSideCastlingMask; blackKingSideCastlingMask; blackQueenSideCastlingMask] = true.
Proof. vm_compute. reflexivity. Qed.
(** named squares: a1..h1 = 7..0, ..., a8..h8 = 63..56 *)
Lemma impl_consts_squares :
  lN_eqb g_c_squares_a1_h8 (flat_map (fun r => map (fun f => 8 * r + (7 - f)) (seqN 8)) (seqN 8)) = true /\
  lN_eqb [A1; B1; C1; D1; E1; F1; G1; H1; A8; B8; C8; D8; E8; F8; G8; H8]
         (firstn 8 g_c_squares_a1_h8 ++ skipn 56 g_c_squares_a1_h8) = true.
Proof. split; vm_compute; reflexivity. Qed.
Lemma impl_consts_piece_lists :
  lN_eqb g_c_AllPieces AllPieces = true /\ lN_eqb g_c_QueenRookKnightBishop QueenRookKnightBishop = true /\
  lN_eqb g_c_KingQueenRookKnightBishop KingQueenRookKnightBishop = true.
Proof. repeat split; vm_compute; reflexivity. Qed.

(** move.go helpers over their whole domain *)
Definition types10 : list N := seqN 10.
Definition sq64 : list N := seqN 64.
Definition mv (t f to_ pc pr cap : N) : move := mkMove t f to_ pc pr cap.

Lemma impl_castling_rights_lost :
  forallb (fun f => forallb (fun t => castling_rights_lost (mv 0 f t 0 0 0) =? nthN (nthN g_castling_lost f []) t 99) sq64) sq64 = true
  /\ length g_castling_lost = 64%nat /\ forallb (fun r => (length r =? 64)%nat) g_castling_lost = true.
Proof. repeat split; vm_compute; reflexivity. Qed.

Definition nb_eqb (a b : N * bool) : bool := (fst a =? fst b) && Bool.eqb (snd a) (snd b).
Lemma impl_ep_target :
  forallb (fun t => forallb (fun s => nb_eqb (ep_target (mv t 0 s 0 0 0)) (nthN (nthN g_ep_target t []) s (99, true))) sq64) types10 = true.
Proof. vm_compute. reflexivity. Qed.
Lemma impl_ep_capture :
  forallb (fun t => forallb (fun s => nb_eqb (ep_capture (mv t 0 s 0 0 0)) (nthN (nthN g_ep_capture t []) s (99, true))) sq64) types10 = true.
Proof. vm_compute. reflexivity. Qed.
Lemma impl_castling_rook_move :
  forallb (fun t => forallb (fun s =>
     let '(rf, rt, ok) := castling_rook_move (mv t s 0 0 0 0) in
     nb_eqb (rf * 64 + rt, ok) (nthN (nthN g_castling_rook t []) s (9999, true))) sq64) types10 = true.
Proof. vm_compute. reflexivity. Qed.

Definition pred_ok (f : move -> bool) (tbl : list bool) : bool :=
  (length tbl =? 10)%nat && forallb (fun t => Bool.eqb (f (mv t 0 0 0 0 0)) (nthN tbl t true)) types10 &&
  forallb (fun t => Bool.eqb (f (mv t 0 0 0 0 0)) (nthN tbl t false)) types10.
Lemma impl_move_predicates :
  pred_ok is_invalid g_is_invalid && pred_ok is_capture g_is_capture && pred_ok is_capture_or_ep g_is_capture_or_ep &&
  pred_ok is_promotion g_is_promotion && pred_ok is_castle g_is_castle = true.
Proof. vm_compute. reflexivity. Qed.
Lemma impl_is_underpromotion :
  forallb (fun t => forallb (fun p => Bool.eqb (is_underpromotion (mv t 0 0 0 p 0)) (nthN (nthN g_is_underpromotion t []) p true)
                                    && Bool.eqb (is_underpromotion (mv t 0 0 0 p 0)) (nthN (nthN g_is_underpromotion t []) p false)) (seqN 7)) types10 = true.
Proof. vm_compute. reflexivity. Qed.
Lemma impl_update_noprogress :
  forallb (fun p => forallb (fun t => update_noprogress (fst p) (mv t 0 0 0 0 0) =? nthN (nthN g_update_noprogress (snd p) []) t 9999) types10)
          [(0, 0); (7, 1); (99, 2); (9223372036854775806, 3); (9223372036854775807, 4)] = true.
Proof. vm_compute. reflexivity. Qed.
Lemma impl_safe_castling_squares :
  forallb (fun c => forallb (fun t => lN_eqb (safe_castling_squares c t) (nthN (nthN g_safe_castling c []) t [99])) types10) [0; 1] = true.
Proof. vm_compute. reflexivity. Qed.

(** bit helpers *)
Lemma impl_bit_helpers :
  lN_eqb (map bitmask sq64) g_bitmask && lN_eqb (map bitrank (seqN 8)) g_bitrank && lN_eqb (map bitfile (seqN 8)) g_bitfile &&
  lN_eqb (map (fun s => sq_rank s * 8 + sq_file s) sq64) g_rank_file &&
  lN_eqb (flat_map (fun f => map (fun r => new_square f r) (seqN 8)) (seqN 8)) g_new_square = true.
Proof. vm_compute. reflexivity. Qed.
Lemma impl_pawn_boards_single :
  lN_eqb (map (fun s => pawn_captureboard White (bitmask s)) sq64) g_pawn_capture_0 &&
  lN_eqb (map (fun s => pawn_captureboard Black (bitmask s)) sq64) g_pawn_capture_1 &&
  lN_eqb (map (fun s => pawn_moveboard 0 White (bitmask s)) sq64) g_pawn_move_0 &&
  lN_eqb (map (fun s => pawn_moveboard 0 Black (bitmask s)) sq64) g_pawn_move_1 &&
  lN_eqb [pawn_jump_rank White; pawn_jump_rank Black] g_pawn_jump_rank &&
  lN_eqb [pawn_promotion_rank White; pawn_promotion_rank Black] g_pawn_promo_rank = true.
Proof. vm_compute. reflexivity. Qed.

(** table shapes: 64 entries, 64 x 256 entries, every word below 2^64 *)
Definition shape1 (t : list N) : bool := (length t =? 64)%nat.
Definition shape2 (t : list (list N)) : bool :=
  (length t =? 64)%nat && forallb (fun r => (length r =? 256)%nat && forallb (fun w => w <? 18446744073709551616) r) t.
Lemma impl_table_shapes :
  shape1 g_rot90 && shape1 g_rot45L && shape1 g_rot45R && shape1 g_mask45L && shape1 g_mask45R && shape1 g_off45L && shape1 g_off45R &&
  shape1 g_king && shape1 g_knight && shape2 g_rookrank && shape2 g_rookfile && shape2 g_bishopl && shape2 g_bishopr = true.
Proof. vm_compute. reflexivity. Qed.
