(** Tie (a) for pkg/search/searchctl/timectrl.go (Limits) and the table replacement value
    (transposition.go val): model = values dumped from the running code on a grid. *)
From Coq Require Import NArith ZArith List Bool.
From Morlock.gen Require Import GenMisc.
From Morlock.Model Require Import Searchctl Score Move TT.
Import ListNotations.
Open Scope Z_scope.

Lemma impl_limits :
  forallb (fun r => let '(w, b, mv, c, soft, hard) := r in
                    let '(s, h) := limits w b mv c in (s =? soft) && (h =? hard)) g_limits = true /\
  (672 <=? length g_limits)%nat = true.
Proof. split; vm_compute; reflexivity. Qed.

(** the same from the numbers of a go line (uci.go: time.Millisecond * time.Duration(n), wrapping) *)
Lemma impl_go_limits :
  forallb (fun r => let '(w, b, mv, c, soft, hard) := r in
                    let '(s, h) := go_limits w b mv c in (s =? soft) && (h =? hard)) g_go_limits = true /\
  (840 <=? length g_go_limits)%nat = true.
Proof. split; vm_compute; reflexivity. Qed.

Definition entry_pd (ply depth : Z) : entry := fresh_entry 0%N 0%N ply depth zero_score no_move.
Lemma impl_tt_val :
  forallb (fun r => let '(ply, depth, v) := r in (Z.of_N (val (Some (entry_pd ply depth))) =? v)) g_tt_val = true /\
  (49 <=? length g_tt_val)%nat = true.
Proof. split; vm_compute; reflexivity. Qed.
