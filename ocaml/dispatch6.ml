(* End-to-end UCI sessions (C04 sequential part): position / go depth d, each go run to completion. *)
open Model
open Common
open Conv

let split_on c s = String.split_on_char c s
let split_str (sep : string) (s : string) : string list = Str.split_delim (Str.regexp_string sep) s
let ws s = List.filter (fun w -> w <> "") (split_on ' ' s)
let str_of_codes = Dispatch4.str_of_codes
let string_of_str (s : n list) : string = String.concat "" (List.map (fun x -> String.make 1 (Char.chr (int_of_n x land 255))) s)

let sq_name (s : n) : string =
  let i = int_of_n s in
  Printf.sprintf "%c%c" (Char.chr (97 + (7 - (i land 7)))) (Char.chr (49 + (i lsr 3)))
let uci_move (m : move) : string =
  sq_name m.mfrom ^ sq_name m.mto ^ (match int_of_n m.mpromo with 5 -> "q" | 4 -> "r" | 3 -> "n" | 2 -> "b" | _ -> "")

(* printPV's score field *)
let score_tok (s : score) : string =
  match s.sty with
  | Heuristic ->
    let f = Int32.float_of_bits (Int32.of_int (int_of_z s.sbits)) in
    Printf.sprintf "cp:%d" (int_of_float (f *. 100.0))
  | _ ->
    let i = inc s in
    let m = (match i.sty with MateInX -> int_of_z i.smate | _ -> 0) in
    (* Go int8 division truncates toward zero *)
    Printf.sprintf "mate:%d" (if m >= 0 then m / 2 else - ((- m) / 2))

let handle_ucigo line args obs =
  match args with
  | hash :: q :: "::" :: lines ->
    let zt = Dispatch4.zt0 () in
    let hashmb = (match split_on '=' hash with [_; v] -> int_of_string v | _ -> failwith "hash") in
    let use_q = (q = "q=1") in
    let mk_table (h : n) : ttv = if int_of_n h = 0 then NoTT else (match new_table (n_of_int 1024) with Some t -> TableTT t | None -> NoTT) in
    let e0 = Dispatch4.empty_engine () in
    let u = ref (Some { u_d = { d_eng = e0; d_last = [] }; u_tt = mk_table (n_of_int hashmb); u_hash = n_of_int hashmb; u_depth = N0 }) in
    let observed = List.map String.trim (split_str " | " obs) in
    if List.length observed <> List.length lines then failwith "ucigo: obs count";
    let last_pos = ref None in
    List.iteri (fun i ltok ->
        let l = str_of_codes ltok in
        let text = string_of_str l in
        let o = List.nth observed i in
        let words = ws text in
        (match words with
         | "position" :: _ ->
           u := (match !u with Some x -> u_position zt mk_table x l | None -> None);
           last_pos := Some l;
           let m = (match !u with Some _ -> "ok" | None -> "EXIT") in
           if m <> o then report_mismatch line (Printf.sprintf "line#%d: %s" i m)
         | ["ucinewgame"] ->
           u := (match !u with Some x -> Some { x with u_d = cmd_ucinewgame x.u_d } | None -> None);
           if o <> (match !u with Some _ -> "ok" | None -> "EXIT") then report_mismatch line (Printf.sprintf "line#%d: ok" i)
         | ["go"; "depth"; d] ->
           (match !u with
            | None -> if o <> "EXIT" then report_mismatch line (Printf.sprintf "line#%d: EXIT" i)
            | Some x ->
              let (outs, x') = go_depth zt use_q Dispatch3.qfuel x (nat_of_int (int_of_string d)) in
              u := Some x';
              let toks = List.filter_map (fun oo ->
                  match oo with
                  | OInfo (((dep, _), sc), pv) ->
                    Some (Printf.sprintf "d%d:%s:%s" (int_of_nat dep) (score_tok sc) (if pv = [] then "-" else String.concat ";" (List.map uci_move pv)))
                  | OBest (Some m) -> Some ("best:" ^ uci_move m)
                  | OBest None -> Some "best:0000"
                  | OReady -> None) outs in
              let m = "go " ^ String.concat " " toks in
              (* the one-slot PV channel keeps only the latest unread iteration: the implementation may skip
                 intermediate depths; what it prints must be a subsequence of the model's stream ending in
                 the same final iteration and best move *)
              let rec subseq a b = match a, b with
                | [], _ -> true
                | _, [] -> false
                | x :: a', y :: b' -> if x = y then subseq a' b' else subseq a b' in
              let otoks0 = (match ws o with "go" :: r -> r | r -> r) in
              let last2 l = (match List.rev l with a :: b :: _ -> [b; a] | l' -> List.rev l') in
              if not (subseq otoks0 toks && last2 otoks0 = last2 toks) then report_mismatch line (Printf.sprintf "line#%d: %s" i m);
              if List.length otoks0 < List.length toks then bump "ucigo/skipped-depth-info";
              bump "ucigo/go";
              if hashmb > 0 then bump "ucigo/with-table";
              (* C04 on the implementation *)
              let otoks = ws o in
              let bests = List.filter (fun t -> String.length t > 5 && String.sub t 0 5 = "best:") otoks in
              if List.exists (fun t -> String.length t > 10 && String.sub t 0 10 = "DUPLICATE:") otoks then
                report_spec ~key:"prop=C04" line (Printf.sprintf "line#%d: more than one bestmove for one go" i)
              else if o = "NOANSWER" || bests = [] then
                report_spec ~key:"prop=C04" line (Printf.sprintf "line#%d: go was not answered by a bestmove" i)
              else begin
                let bm = (let t = List.hd bests in String.sub t 5 (String.length t - 5)) in
                match !last_pos with
                | Some pl ->
                  (match setup pl with
                   | Some g ->
                     let legal = spec_legal g.g_pos g.g_turn in
                     if bm = "0000" then begin
                       bump "ucigo/null-move";
                       if legal <> [] then report_spec ~key:"prop=C04" line (Printf.sprintf "line#%d: bestmove 0000 although the position has legal moves" i)
                     end else begin
                       let s = List.map (fun ch -> n_of_int (Char.code ch)) (List.init (String.length bm) (String.get bm)) in
                       if smove_of_str g s = None then report_spec ~key:"prop=C04" line (Printf.sprintf "line#%d: bestmove %s is not legal in the position last set up" i bm);
                       if g.g_now <> [] then bump "ucigo/draw-claimable-root"
                     end
                   | None -> ())
                | None -> ()
              end)
         | _ -> ())) lines
  | _ -> failwith ("bad ucigo: " ^ short line)

(* iterpv hash=h P turn np fm limit=d => d1:nodes:score:pv | ...   (C15: the reported stream) *)
let handle_iterpv line args obs =
  match args with
  | [hash; ptok; turn; np; fm; limit] ->
    let zt = Dispatch4.zt0 () in
    let hashmb = (match split_on '=' hash with [_; v] -> int_of_string v | _ -> failwith "hash") in
    let lim = (match split_on '=' limit with [_; v] -> int_of_string v | _ -> failwith "limit") in
    let p0 = Dispatch2.parse_pos ptok and t0 = n_of_int (int_of_string turn) in
    let (h0, b0) = new_board zt [] p0 t0 (n_of_int (int_of_string np)) (z_of_int (int_of_string fm)) in
    let (h1, f) = fork h0 b0 in
    let tt = if hashmb = 0 then NoTT else (match new_table (n_of_int 1024) with Some t -> TableTT t | None -> NoTT) in
    let ((infos, _), _) = iterate zt false Dispatch3.qfuel (nat_of_int (lim + 1)) (nat_of_int 1) (Some (nat_of_int lim)) (h1, f) tt [] in
    let mtoks = List.map (fun (((d, nodes), sc), pv) ->
        Printf.sprintf "d%d:%d:%s:%s" (int_of_nat d) (int_of_n nodes) (Dispatch3.score_str sc) (Dispatch3.pv_str pv)) infos in
    let otoks = List.map String.trim (split_str " | " obs) in
    let rec subseq a b = match a, b with
      | [], _ -> true | _, [] -> false
      | x :: a', y :: b' -> if x = y then subseq a' b' else subseq a b' in
    let last l = (match List.rev l with x :: _ -> x | [] -> "") in
    if not (subseq otoks mtoks && last otoks = last mtoks) then report_mismatch line (String.concat " | " mtoks);
    bump "iterpv/analysis";
    if List.length otoks < List.length mtoks then bump "iterpv/skipped-depth";
    (* C15: the stream ends exactly at the depth limit or at the first depth with a forced mate within the depth *)
    let final = (match List.rev infos with (((d, _), sc), _) :: _ -> Some (int_of_nat d, sc) | [] -> None) in
    (match final with
     | Some (d, sc) ->
       let (md, okm) = mate_distance sc in
       let mate_stop = okm && int_of_z md <= d in
       if mate_stop then bump "iterpv/ended-by-mate";
       (match List.rev otoks with
        | lt :: _ ->
          let od = (try int_of_string (String.sub (List.hd (split_on ':' lt)) 1 (String.length (List.hd (split_on ':' lt)) - 1)) with _ -> -1) in
          if od <> lim && not mate_stop then report_spec ~key:"prop=C15" line (Printf.sprintf "analysis ended at depth %d, requested limit %d, no forced mate" od lim)
        | [] -> report_spec ~key:"prop=C15" line "analysis reported nothing")
     | None -> ());
    (* each reported score is the minimax value at that depth (history-free legal starts) *)
    if wf_b p0 t0 && hashmb = 0 then begin
      let g = g_start (abs_pos p0) (color_of t0) (z_of_int (int_of_string np)) (z_of_int (int_of_string fm)) in
      List.iter (fun tok ->
          match split_on ':' tok with
          | d :: _ :: sc :: _ ->
            let dd = int_of_string (String.sub d 1 (String.length d - 1)) in
            if dd <= 3 then begin
              let v = Dispatch3.spec_value { Dispatch3.depths = []; quiet = false; tt = "none"; low = neginf_score; high = inf_score; cancel = -1; ex = "full" } g dd true in
              if not (Dispatch3.eqv (Dispatch3.parse_score sc) v) then
                report_spec ~key:"prop=C15" line (Printf.sprintf "depth %d reported with score %s, minimax value %s" dd sc (Dispatch3.score_str v))
            end
          | _ -> ()) otoks
    end
  | _ -> failwith ("bad iterpv: " ^ short line)

(* ucitrace engine cmds... => R I B ...   observable trace of the real driver, checked by the trace
   acceptor of the driver transition system (Model/Driver.v obs_ok / obs_counts_ok) *)
let handle_ucitrace line args obs =
  match args with
  | _engine :: cmds ->
    let tf c = (c = '1') in
    let script = List.map (fun t ->
        match t with
        | "r" -> CIsReady | "n" -> CNewGame | "p" -> CPosition true | "s" -> CStop | "q" -> CQuit | "j" -> CJunk | "G" -> CGoBook
        | _ when String.length t = 6 && String.sub t 0 2 = "g:" ->
          CGo { g_inf = tf t.[2]; g_mt = tf t.[3]; g_lim = tf t.[4]; g_clk = tf t.[5] }
        | _ -> failwith ("bad trace cmd " ^ t)) cmds in
    let o = List.filter_map (fun t -> match t with "R" -> Some OReady0 | "I" -> Some OInfo0 | "B" -> Some OBest0 | _ -> None) (ws obs) in
    bump "ucitrace";
    if List.exists (fun t -> t = "B") (ws obs) then bump "ucitrace/with-bestmove";
    if not (obs_counts_ok script o) then report_spec ~key:"prop=C16" line "trace rejected by the count form of the driver model (readyok per isready, at most one bestmove per go)"
    else if not (obs_ok script o) then report_mismatch line "trace not accepted by the driver model (obs_ok)"
  | _ -> failwith "bad ucitrace"

let handle (line : string) (kind : string) (args : string list) (obs : string) : unit =
  match kind with
  | "ucitrace" -> handle_ucitrace line args obs
  | "iterpv" -> handle_iterpv line args obs
  | "ucigo" -> handle_ucigo line args obs
  | _ -> failwith ("unknown case kind: " ^ line)
