(* Further handlers (driver traces, engines); extended below. *)
let handle (line : string) (_kind : string) (_args : string list) (_obs : string) : unit =
  failwith ("unknown case kind: " ^ line)
