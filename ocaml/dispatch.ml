(* Handlers for the board-level case kinds. See harness/cases_*.go for the line formats. *)
open Model
open Conv

open Common

(* ---------- positions and moves ---------- *)

let parse_pos (tok : string) : position =
  match List.map n_of_hex (split_on ',' tok) with
  | l when List.length l = 20 ->
    let rec take k l = if k = 0 then ([], l) else match l with x :: r -> let (a, b) = take (k - 1) r in (x :: a, b) | [] -> failwith "short" in
    let (pcs, rest) = take 14 l in
    (match rest with
     | [a; b; c; d; cas; ep] -> { pieces = pcs; rotated_bb = { r0 = a; r90 = b; r45L = c; r45R = d }; castling = cas; enpassant = ep }
     | _ -> failwith "bad pos")
  | _ -> failwith ("bad position token: " ^ tok)

let pos_str (p : position) : string =
  String.concat "," (List.map hex_of_n (p.pieces @ [p.rotated_bb.r0; p.rotated_bb.r90; p.rotated_bb.r45L; p.rotated_bb.r45R; p.castling; p.enpassant]))

let parse_move (tok : string) : move =
  match List.map (fun x -> n_of_int (int_of_string x)) (split_on ',' tok) with
  | [t; f; to_; pc; pr; cap] -> { mtype = t; mfrom = f; mto = to_; mpiece = pc; mpromo = pr; mcapture = cap }
  | _ -> failwith ("bad move token: " ^ tok)

let move_str (m : move) : string =
  Printf.sprintf "%d,%d,%d,%d,%d,%d" (int_of_n m.mtype) (int_of_n m.mfrom) (int_of_n m.mto) (int_of_n m.mpiece) (int_of_n m.mpromo) (int_of_n m.mcapture)

let color_code (c : color) = match c with Wh -> 0 | Bl -> 1
let kind_code (k : kind) = int_of_n (code_of_kind k)
let okind_code = function None -> 0 | Some k -> kind_code k

let smove_str (m : smove) : string = Printf.sprintf "%d-%d-%d" (int_of_nat m.sfrom) (int_of_nat m.sto) (okind_code m.spromo)

let is_some = function Some _ -> true | None -> false

(* canonical normalisation of hex strings as printed by Go (%x, no leading zeros) *)
let norm_hex s = let s = String.lowercase_ascii s in
  let n = String.length s in
  let i = ref 0 in
  while !i < n - 1 && s.[!i] = '0' do incr i done;
  String.sub s !i (n - !i)
let norm_pos_tok tok = String.concat "," (List.map norm_hex (split_on ',' tok))

(* ---------- movegen ---------- *)

(* metadata consistency of an implementation move against the specification *)
let metadata_ok (sp : spos) (m : move) : string option =
  let sm = abs_move m in
  let t = int_of_n m.mtype in
  let moving = Model.moving sp sm and captured = Model.captured sp sm in
  let is_ep = is_ep_move sp sm and is_castle = is_castling_move sp.brd sm and is_dbl = is_double_step sp.brd sm in
  let pawn = (moving = Some P) in
  let promo = is_some sm.spromo in
  let expect_type =
    if is_castle then (if int_of_n m.mto land 7 = 1 then 6 else 5)
    else if is_ep then 4
    else if promo && is_some captured then 9
    else if promo then 8
    else if is_some captured then 7
    else if is_dbl then 3
    else if pawn then 2
    else 1 in
  if t <> expect_type then Some (Printf.sprintf "type of %s should be %d" (move_str m) expect_type)
  else if Some (int_of_n m.mpiece) <> (match moving with Some k -> Some (kind_code k) | None -> None) then Some ("moving piece of " ^ move_str m)
  else if (t = 7 || t = 9) && int_of_n m.mcapture <> okind_code captured then Some ("captured piece of " ^ move_str m)
  else if (t <> 7 && t <> 9) && int_of_n m.mcapture <> 0 then Some ("capture recorded on non-capture " ^ move_str m)
  else if (not promo) && false then None
  else None

let handle_movegen line args obs =
  match args with
  | [ptok; turn] ->
    let p = parse_pos ptok and c = n_of_int (int_of_string turn) in
    let obs_moves = List.filter (fun w -> w <> "") (split_on ';' obs) in
    let parsed = List.map (fun w ->
        match split_on ',' w with
        | [t; f; to_; pc; pr; cap; ok] -> (parse_move (String.concat "," [t; f; to_; pc; pr; cap]), ok = "1")
        | _ -> failwith ("bad movegen obs " ^ w)) obs_moves in
    (* model: same multiset of pseudo-legal moves, same legality flags *)
    let model = List.map (fun m -> (move_str m, is_some (pos_move p m))) (pseudo_legal_moves p c) in
    let impl = List.map (fun (m, ok) -> (move_str m, ok)) parsed in
    if List.sort compare model <> List.sort compare impl then
      report_mismatch line (String.concat ";" (List.map (fun (s, ok) -> s ^ (if ok then ",1" else ",0")) model));
    if wf_b p c then begin
      bump "movegen/wf";
      let sp = abs_pos p in
      let sc = color_of c in
      let spec = List.sort compare (List.map smove_str (spec_legal sp sc)) in
      let legal = List.filter snd parsed in
      let got = List.sort compare (List.map (fun (m, _) -> smove_str (abs_move m)) legal) in
      if spec <> got then report_spec line ("legal set " ^ String.concat " " spec)
      else begin
        List.iter (fun (m, _) ->
            (match int_of_n m.mtype with
             | 4 -> bump "move/enpassant" | 5 | 6 -> bump "move/castle" | 8 | 9 -> bump "move/promotion"
             | 7 -> bump "move/capture" | 3 -> bump "move/jump" | _ -> ());
            match metadata_ok sp m with Some e -> report_spec line e | None -> ()) legal
      end;
      if in_check sp.brd sc then bump "movegen/in-check";
      if spec = [] then bump "movegen/no-legal-move";
      if List.exists (fun (_, ok) -> not ok) parsed then bump "movegen/has-illegal-pseudo"
    end else bump "movegen/not-wf"
  | _ -> failwith ("bad movegen line: " ^ line)

let turn_of_move (p : position) (m : move) : n option =
  match square p m.mfrom with Some (c, _) -> Some c | None -> None

let handle_move line args obs =
  match args with
  | [ptok; mtok] ->
    let p = parse_pos ptok and m = parse_move mtok in
    let r = pos_move p m in
    let model = match r with Some q -> pos_str q | None -> "illegal" in
    let obs_n = if obs = "illegal" then obs else norm_pos_tok obs in
    if model <> obs_n then report_mismatch line model;
    (match turn_of_move p m with
     | Some c when wf_b p c && obs <> "illegal" ->
       bump "move/wf-legal";
       let q = parse_pos obs in
       if not (inv_b q) then report_spec line "successor violates the representation invariant (views disagree)"
       else begin
         let expect = apply_move (abs_pos p) (color_of c) (abs_move m) in
         if not (spos_eqb (abs_pos q) expect) then report_spec line "successor position differs from the rules"
         else if not (wf_b q (if int_of_n c = 0 then n_of_int 1 else n_of_int 0)) then report_spec line "successor is not a legal position"
       end
     | _ -> bump "move/other")
  | _ -> failwith ("bad move line: " ^ line)

(* ---------- attacks ---------- *)

let occ_fun (occ : n) : nat -> bool =
  let arr = Array.make 64 false in
  List.iter (fun s -> let i = int_of_n s in if i < 64 then arr.(i) <- true) (bits_asc occ);
  fun s -> let i = int_of_nat s in i < 64 && arr.(i)

let mask_of_squares (l : nat list) : string =
  (* 64-bit mask as hex from a list of squares *)
  let arr = Array.make 64 false in
  List.iter (fun s -> arr.(int_of_nat s) <- true) l;
  let buf = Buffer.create 16 in
  for d = 15 downto 0 do
    let v = (if arr.(4 * d + 3) then 8 else 0) + (if arr.(4 * d + 2) then 4 else 0) + (if arr.(4 * d + 1) then 2 else 0) + (if arr.(4 * d) then 1 else 0) in
    Buffer.add_char buf "0123456789abcdef".[v]
  done;
  norm_hex (Buffer.contents buf)

let handle_attacks line args obs =
  match args with
  | [a; b; c; d; sq] ->
    let r = { r0 = n_of_hex a; r90 = n_of_hex b; r45L = n_of_hex c; r45R = n_of_hex d } in
    let s = n_of_int (int_of_string sq) in
    let model = String.concat " " (List.map (fun x -> norm_hex (hex_of_n x))
        [rook_attackboard r s; bishop_attackboard r s; king_attackboard s; knight_attackboard s]) in
    let obs_n = String.concat " " (List.map norm_hex (words obs)) in
    if model <> obs_n then report_mismatch line model;
    let occ = occ_fun r.r0 in
    let sn = nat_of_int (int_of_string sq) in
    let spec = String.concat " " [
        mask_of_squares (attacks_from occ Wh R sn); mask_of_squares (attacks_from occ Wh Bi sn);
        mask_of_squares (attacks_from occ Wh K sn); mask_of_squares (attacks_from occ Wh Kn sn)] in
    bump "attacks";
    if spec <> obs_n then report_spec line spec
  | _ -> failwith ("bad attacks line: " ^ line)

let handle_pawnboards line args obs =
  match args with
  | [c; pawns; all] ->
    let cn = n_of_int (int_of_string c) and pw = n_of_hex pawns and al = n_of_hex all in
    let model = norm_hex (hex_of_n (pawn_captureboard cn pw)) ^ " " ^ norm_hex (hex_of_n (pawn_moveboard al cn pw)) in
    let obs_n = String.concat " " (List.map norm_hex (words obs)) in
    if model <> obs_n then report_mismatch line model;
    (* spec: union over the pawns of their two forward diagonals *)
    let sc = color_of cn in
    let sqs = List.concat_map (fun s -> attacks_from (fun _ -> false) sc P (nat_of_int (int_of_n s))) (bits_asc pw) in
    let spec = mask_of_squares sqs in
    bump "pawnboards";
    (match words obs_n with
     | cap :: _ -> if cap <> spec then report_spec line spec
     | _ -> ())
  | _ -> failwith ("bad pawnboards line: " ^ line)

(* queries P turn => checkedW checkedB mate attackedmask  (attackedmask: squares s with IsAttacked(turn, s)) *)
let handle_queries line args obs =
  match args with
  | [ptok; turn] ->
    let p = parse_pos ptok and c = n_of_int (int_of_string turn) in
    let b01 b = if b then "1" else "0" in
    let att = List.filter (fun s -> is_attacked p c (n_of_int s)) (List.init 64 (fun i -> i)) in
    let model = String.concat " " [b01 (is_checked p (n_of_int 0)); b01 (is_checked p (n_of_int 1)); b01 (is_checkmate p c);
                                   mask_of_squares (List.map nat_of_int att)] in
    let obs_n = (match words obs with [a; b; m; mask] -> String.concat " " [a; b; m; norm_hex mask] | _ -> obs) in
    if model <> obs_n then report_mismatch line model;
    if inv_b p then begin
      bump "queries";
      let sp = abs_pos p in
      let sc = color_of c in
      let satt = List.filter (fun s -> attacked sp.brd (other sc) (nat_of_int s)) (List.init 64 (fun i -> i)) in
      let spec = String.concat " " [b01 (in_check sp.brd Wh); b01 (in_check sp.brd Bl);
                                    (if wf_b p c then b01 (checkmate sp sc) else (match words obs with [_; _; m; _] -> m | _ -> "?"));
                                    mask_of_squares (List.map nat_of_int satt)] in
      if spec <> obs_n then report_spec line spec
    end
  | _ -> failwith ("bad queries line: " ^ line)

(* perft P turn depth => count *)
let handle_perft line args obs =
  match args with
  | [ptok; turn; d] ->
    let p = parse_pos ptok and c = n_of_int (int_of_string turn) in
    let spec = int_of_z (spec_perft (abs_pos p) (color_of c) (nat_of_int (int_of_string d))) in
    bump "perft";
    if string_of_int spec <> obs then report_spec line (string_of_int spec)
  | _ -> failwith ("bad perft line: " ^ line)

(* gamegen P turn :: m1 m2 ... => set0 | set1 | ...   legal-move sets along a game, compared with the
   specification game played from the start by the rules *)
let handle_gamegen line args obs =
  match args with
  | ptok :: turn :: "::" :: mtoks ->
    let p = parse_pos ptok and c = n_of_int (int_of_string turn) in
    if wf_b p c then begin
      let sets = List.map String.trim (Str.split_delim (Str.regexp_string " | ") obs) in
      let moves = if mtoks = ["-"] then [] else List.map parse_move mtoks in
      let g = ref (g_start (abs_pos p) (color_of c) Z0 (z_of_int 1)) in
      let ok = ref true in
      List.iteri (fun i set ->
          if !ok then begin
            let got = List.sort compare (if set = "-" then [] else split_on ',' set) in
            let spec = List.sort compare (List.map smove_str (spec_legal !g.g_pos !g.g_turn)) in
            bump "gamegen/state";
            if got <> spec then begin
              ok := false;
              report_spec line (Printf.sprintf "after %d moves of the game the legal moves differ from the rules: engine has %s, rules have %s" i
                                  (String.concat " " (List.filter (fun x -> not (List.mem x spec)) got))
                                  (String.concat " " (List.filter (fun x -> not (List.mem x got)) spec)))
            end;
            (match List.nth_opt moves i with
             | Some m -> if int_of_n m.mtype = 5 || int_of_n m.mtype = 6 then bump "gamegen/castle-played"; g := g_play !g (abs_move m)
             | None -> ())
          end) sets
    end else bump "gamegen/not-wf"
  | _ -> failwith ("bad gamegen line: " ^ short line)

(* captures P side sq => piece:sq,...     (eval.FindCapture) *)
let handle_captures line args obs =
  match args with
  | [ptok; side; sq] ->
    let p = parse_pos ptok and c = n_of_int (int_of_string side) and s = n_of_int (int_of_string sq) in
    let model = String.concat "," (List.map (fun (pc, f) -> Printf.sprintf "%d:%d" (int_of_n pc) (int_of_n f)) (find_capture p c s)) in
    let model = if model = "" then "-" else model in
    if model <> String.trim obs then report_mismatch line model;
    if inv_b p then begin
      bump "captures";
      let spec = List.sort compare (List.map (fun (k, f) -> Printf.sprintf "%d:%d" (kind_code k) (int_of_nat f))
                                      (spec_capturers (abs_pos p).brd (color_of c) (nat_of_int (int_of_string sq)))) in
      let got = List.sort compare (if String.trim obs = "-" then [] else split_on ',' (String.trim obs)) in
      if got <> [] then bump "captures/nonempty";
      if spec <> got then report_spec ~key:"prop=C06" line ("pieces that can capture on the square: " ^ String.concat "," spec)
    end
  | _ -> failwith "bad captures line"

(* pins P side piece => attacker:pinned:target,...     (eval.FindPins) *)
let handle_pins line args obs =
  match args with
  | [ptok; side; piece] ->
    let p = parse_pos ptok and c = n_of_int (int_of_string side) and pc = n_of_int (int_of_string piece) in
    let model = String.concat "," (List.map (fun ((a, pi), t) -> Printf.sprintf "%d:%d:%d" (int_of_n a) (int_of_n pi) (int_of_n t)) (find_pins p c pc)) in
    let model = if model = "" then "-" else model in
    if model <> String.trim obs then report_mismatch line model;
    if inv_b p then begin
      bump "pins";
      match kind_of pc with
      | Some k ->
        let spec = List.sort compare (List.map (fun ((a, pi), t) -> Printf.sprintf "%d:%d:%d" (int_of_nat a) (int_of_nat pi) (int_of_nat t))
                                        (spec_pins (abs_pos p).brd (color_of c) k)) in
        let got = List.sort compare (if String.trim obs = "-" then [] else split_on ',' (String.trim obs)) in
        if got <> [] then bump "pins/nonempty";
        if spec <> got then report_spec ~key:"prop=C06" line ("pins: " ^ String.concat "," spec)
      | None -> ()
    end
  | _ -> failwith "bad pins line"

let handle (line : string) (kind : string) (args : string list) (obs : string) : unit =
  match kind with
  | "captures" -> handle_captures line args obs
  | "pins" -> handle_pins line args obs
  | "movegen" -> handle_movegen line args obs
  | "gamegen" -> handle_gamegen line args obs
  | "move" -> handle_move line args obs
  | "attacks" -> handle_attacks line args obs
  | "pawnboards" -> handle_pawnboards line args obs
  | "queries" -> handle_queries line args obs
  | "perft" -> handle_perft line args obs
  | "zkeys" | "bscript" -> Dispatch2.handle line kind args obs
  | "absearch" | "halt" -> Dispatch3.handle line kind args obs
  | "fenrt" | "decode" | "parsemove" | "parsesq" | "engmove" | "engfen" | "enggame" | "ucipos" -> Dispatch4.handle line kind args obs
  | "ttseq" -> Dispatch5.handle line kind args obs
  | _ -> Dispatch7.handle line kind args obs
