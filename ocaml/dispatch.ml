(* Handlers for the non-score case kinds; extended as the model grows. *)
let handle (line : string) (_kind : string) (_args : string list) (_obs : string) : unit =
  failwith ("unknown case kind: " ^ line)
