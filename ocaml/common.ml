(* Shared counters and reporting for the driver. *)
let mismatches = ref 0
let specviol = ref 0
let classes : (string, int) Hashtbl.t = Hashtbl.create 64
let bump k = Hashtbl.replace classes k (1 + (try Hashtbl.find classes k with Not_found -> 0))
let short s = if String.length s > 600 then String.sub s 0 600 ^ "..." else s
let report_mismatch line m = incr mismatches; Printf.printf "MISMATCH %s :: model=%s\n" (short line) (short m)
let report_spec ?(key = "") line m =
  incr specviol;
  Printf.printf "SPECVIOL %s :: spec=%s%s\n" (short line) (short m) (if key = "" then "" else if String.length key > 5 && String.sub key 0 5 = "prop=" then " " ^ key else " key=" ^ key)

let split_on c s = String.split_on_char c s
let words s = List.filter (fun w -> w <> "") (split_on ' ' s)

