(* Text codecs, engine game and UCI position commands (C10, C14, C19). *)
open Model
open Common
open Conv

let split_on c s = String.split_on_char c s
let split_str (sep : string) (s : string) : string list = Str.split_delim (Str.regexp_string sep) s
let ws s = List.filter (fun w -> w <> "") (split_on ' ' s)

let str_of_codes (tok : string) : n list =
  if tok = "-" then [] else List.map (fun x -> n_of_int (int_of_string x)) (split_on ',' tok)
let codes_of_str (s : n list) : string =
  if s = [] then "-" else String.concat "," (List.map (fun x -> string_of_int (int_of_n x)) s)

let parse_pos = Dispatch2.parse_pos
let pos_str = Dispatch2.pos_str
let norm_pos tok = String.concat "," (List.map Dispatch2.norm_hex (split_on ',' tok))

let zt0 () = (try Hashtbl.find Dispatch2.zkeys "0" with Not_found -> failwith "zkeys line for seed 0 missing")

(* model's view of decode, in the harness' observation format *)
let decode_obs (s : n list) : string =
  match decode s with
  | Err -> "ERR"
  | Crash -> "CRASH"
  | Ok (((pos, turn), np), fm) ->
    let enc = encode pos turn np fm in
    let again = (match decode enc with
        | Ok (((p2, t2), n2), f2) -> pos_eqb p2 pos && int_of_n t2 = int_of_n turn && n2 = np && f2 = fm
        | _ -> false) in
    Printf.sprintf "OK %s %d %s %s %s %s" (pos_str pos) (int_of_n turn) (dec_of_z np) (dec_of_z fm) (codes_of_str enc) (if again then "1" else "0")

let norm_decode_obs (o : string) : string =
  match ws o with
  | "OK" :: p :: rest -> String.concat " " ("OK" :: norm_pos p :: rest)
  | _ -> String.trim o

let handle_fenrt line args obs =
  match args with
  | [ptok; turn; np; fm] ->
    let p = parse_pos ptok in
    let t = n_of_int (int_of_string turn) in
    (match split_str " | " obs with
     | [enc; dobs] ->
       let menc = encode p t (z_of_dec np) (z_of_dec fm) in
       if codes_of_str menc <> String.trim enc then report_mismatch line ("encode: " ^ codes_of_str menc);
       let md = decode_obs (str_of_codes (String.trim enc)) in
       if md <> norm_decode_obs dobs then report_mismatch line ("decode: " ^ md);
       if inv_b p then begin
         bump "fen/roundtrip";
         if int_of_n p.enpassant <> 0 then bump "fen/with-ep";
         let expect = Printf.sprintf "OK %s %s %s %s" (norm_pos ptok) turn np fm in
         let got = (match ws dobs with "OK" :: pp :: tt :: nn :: ff :: _ -> Printf.sprintf "OK %s %s %s %s" (norm_pos pp) tt nn ff | _ -> String.trim dobs) in
         if got <> expect then report_spec ~key:"prop=C14" line ("decoding the encoded position gives " ^ got);
         (* canonical string: re-encoding reproduces it *)
         (match ws dobs with
          | "OK" :: _ :: _ :: _ :: _ :: enc2 :: _ -> if enc2 <> String.trim enc then report_spec ~key:"prop=C14" line "re-encoding a canonical FEN does not reproduce it"
          | _ -> ())
       end
     | _ -> failwith "fenrt obs")
  | _ -> failwith ("bad fenrt: " ^ short line)

let handle_decode line args obs =
  match args with
  | [ctok] ->
    let s = str_of_codes ctok in
    let md = decode_obs s in
    let o = norm_decode_obs obs in
    if md <> o then report_mismatch line md;
    bump (match ws o with k :: _ -> "decode/" ^ k | [] -> "decode/?");
    (match ws o with
     | ["CRASH"] -> report_spec ~key:"prop=C19" line "decoding crashed"
     | ["NIL"] -> report_spec ~key:"prop=C19" line "decoding returned neither an error nor a position"
     | "OK" :: p :: t :: np :: fm :: _ :: again :: _ ->
       let d = (((parse_pos p, n_of_int (int_of_string t)), z_of_dec np), z_of_dec fm) in
       if not (wf_value d) then report_spec ~key:"prop=C19" line "accepted FEN decodes to a value that is not well formed"
       else if again <> "1" then report_spec ~key:"prop=C19" line "accepted FEN re-encodes to a FEN that decodes differently"
     | _ -> ())
  | _ -> failwith ("bad decode: " ^ short line)

let handle_parsemove line args obs =
  match args with
  | [ctok] ->
    let m = (match parse_move (str_of_codes ctok) with
        | Some m -> Printf.sprintf "OK %d %d %d" (int_of_n m.mfrom) (int_of_n m.mto) (int_of_n m.mpromo)
        | None -> "ERR") in
    bump "parsemove";
    let ascii = List.for_all (fun c -> int_of_string c < 128) (List.filter (fun w -> w <> "") (split_on ',' ctok)) in
    if String.trim obs = "CRASH" then report_spec ~key:"prop=C19" line "ParseMove crashed"
    else begin
      if m <> String.trim obs then report_mismatch line m;
      (* coordinate notation is ASCII: a string with any other rune denotes no move *)
      if (not ascii) && String.length (String.trim obs) >= 2 && String.sub (String.trim obs) 0 2 = "OK" then
        report_spec ~key:"prop=C19 key=non-ascii-accepted" line "ParseMove accepted a string that is not coordinate notation"
    end
  | _ -> failwith "bad parsemove"

let handle_parsesq line args obs =
  match args with
  | [ctok] ->
    let m = (match parse_square_str (str_of_codes ctok) with Some s -> Printf.sprintf "OK %d" (int_of_n s) | None -> "ERR") in
    bump "parsesq";
    if String.trim obs = "CRASH" then report_spec ~key:"prop=C19" line "ParseSquare crashed"
    else begin
      if m <> String.trim obs then report_mismatch line m;
      (* the value a square text denotes: file letter a-h (either case) and rank digit 1-8, H1 = 0 *)
      let cs = List.map int_of_string (List.filter (fun w -> w <> "") (split_on ',' ctok)) in
      let expect = (match cs with
          | [f; r] ->
            let f = if f >= 65 && f <= 72 then f + 32 else f in
            if f >= 97 && f <= 104 && r >= 49 && r <= 56 then Printf.sprintf "OK %d" ((r - 49) * 8 + (104 - f)) else "ERR"
          | _ -> "ERR") in
      let o = String.trim obs in
      if String.length o >= 2 && String.sub o 0 2 = "OK" && o <> expect then
        report_spec ~key:"prop=C19 key=square-value" line (Printf.sprintf "ParseSquare returned %s for a text that denotes %s" o expect)
    end
  | _ -> failwith "bad parsesq"

let empty_engine () : engine =
  let zt = zt0 () in
  fst (eng_reset zt { e_heap = []; e_board = snd (new_board zt [] (Model.empty_position N0 N0) N0 N0 Z0) } fen_initial)

let handle_engmove line args obs =
  match args with
  | [stok; mtok] ->
    let zt = zt0 () in
    let (e0, ok0) = eng_reset zt (empty_engine ()) (str_of_codes stok) in
    if not ok0 then failwith "engmove: start fen rejected by the model";
    let ms = str_of_codes mtok in
    let (e1, ok) = eng_move zt e0 ms in
    let m = if ok then "ACC " ^ codes_of_str (eng_position e1) else "REJ 1" in
    let o = String.trim obs in
    if o = "CRASH" then report_spec ~key:"prop=C19" line "Engine.Move crashed"
    else if m <> o then report_mismatch line m;
    (match gstate_of_fen (str_of_codes stok) with
     | Some g when (match decode (str_of_codes stok) with Ok (((p, t), _), _) -> wf_b p t | _ -> false) ->
       let denotes = (smove_of_str g ms <> None) in
       bump (if denotes then "engmove/legal" else "engmove/not-a-legal-move");
       (match ws o with
        | "ACC" :: _ -> if not denotes then report_spec ~key:"prop=C19" line "move accepted although it does not denote a legal move"
        | ["REJ"; same] ->
          if denotes then report_spec ~key:"prop=C19" line "legal move rejected"
          else if same <> "1" then report_spec ~key:"prop=C19" line "rejected input changed the game state"
        | _ -> ())
     | _ -> bump "engmove/other-start")
  | _ -> failwith "bad engmove"

(* fields of a FEN observation compared with a specification game state *)
let fen_matches_game (fen : n list) (g : gstate) : string option =
  match decode fen with
  | Ok (((p, t), np), fm) ->
    if not (spos_eqb (abs_pos p) g.g_pos) then Some "position"
    else if color_of t <> g.g_turn then Some "side to move"
    else if np <> g.g_clock then Some (Printf.sprintf "half-move clock %s, expected %s" (dec_of_z np) (dec_of_z g.g_clock))
    else if fm <> g.g_fullmove then Some (Printf.sprintf "full-move number %s, expected %s" (dec_of_z fm) (dec_of_z g.g_fullmove))
    else None
  | _ -> Some "reported FEN does not decode"

let engfen_prop = ref "prop=C14"
let handle_engfen line args obs =
  match args with
  | stok :: "::" :: ops ->
    let zt = zt0 () in
    let (e0, ok0) = eng_reset zt (empty_engine ()) (str_of_codes stok) in
    if not ok0 then failwith "engfen: start rejected";
    let observed = List.map String.trim (split_str " | " obs) in
    let e = ref e0 in
    let g = ref (gstate_of_fen (str_of_codes stok)) in
    let gstack = ref [] in
    let check i =
      let o = List.nth observed i in
      let m = codes_of_str (eng_position !e) in
      if o = "CRASH" || o = "REJ" then begin
        (* the move string came from the game: if the specification game accepted it, the engine had to *)
        (match !g with
         | Some _ -> report_spec ~key:!engfen_prop line (Printf.sprintf "op#%d: a legal move string %s" i (if o = "CRASH" then "crashed the engine" else "was rejected"))
         | None -> report_mismatch line (Printf.sprintf "op#%d: %s" i o))
      end else begin
      if m <> o then report_mismatch line (Printf.sprintf "op#%d: %s" i m);
      (match !g with
       | Some gs -> (match fen_matches_game (str_of_codes o) gs with
           | Some what -> report_spec ~key:!engfen_prop line (Printf.sprintf "op#%d: reported FEN is not the standard FEN of the game: %s" i what)
           | None -> ())
       | None -> ())
      end in
    check 0;
    List.iteri (fun k op ->
        (match split_on ':' op with
         | ["tb"] ->
           e := fst (eng_takeback !e);
           (match !gstack with x :: r -> g := x; gstack := r | [] -> g := None);
           bump "engfen/takeback"
         | ["rs"; ctok] ->
           (* a new set-up on the same engine *)
           let f = str_of_codes ctok in
           e := fst (eng_reset zt !e f);
           g := gstate_of_fen f;
           gstack := [];
           bump "engfen/reset"
         | ["mv"; ctok] ->
           let s = str_of_codes ctok in
           e := fst (eng_move zt !e s);
           gstack := !g :: !gstack;
           g := (match !g with Some gs -> (match smove_of_str gs s with Some sm -> Some (g_play gs sm) | None -> None) | None -> None);
           bump "engfen/move"
         | _ -> failwith ("bad engfen op " ^ op));
        if k + 1 < List.length observed then check (k + 1)) ops
  | _ -> failwith ("bad engfen: " ^ short line)

let str_lower_is (s : n list) (w : string) : bool =
  let l = List.map (fun x -> let c = int_of_n x in if c >= 65 && c <= 90 then c + 32 else c) s in
  l = List.map Char.code (List.init (String.length w) (String.get w))

let first_token (line : n list) : n list =
  let rec go l acc = match l with [] -> List.rev acc | x :: r -> if int_of_n x = 32 then List.rev acc else go r (x :: acc) in
  let rec skip l = match l with x :: r when int_of_n x = 32 -> skip r | _ -> l in
  go (skip line) []

let handle_ucipos line args obs =
  let zt = zt0 () in
  let lines = List.map str_of_codes args in
  let observed = List.map String.trim (split_str " | " obs) in
  if List.length observed <> List.length lines then failwith "ucipos: obs count";
  let st = ref (Some { d_eng = empty_engine (); d_last = [] }) in
  List.iteri (fun i l ->
      let o = List.nth observed i in
      let cmd = first_token l in
      (match !st with
       | None -> ()
       | Some s ->
         if str_lower_is cmd "position" then
           st := (match cmd_position zt s l with Running s' -> Some s' | Exited -> None)
         else if str_lower_is cmd "ucinewgame" then st := Some (cmd_ucinewgame s));
      (* model observation *)
      let obs_of s =
        let e = s.d_eng in
        let h = e.e_heap and b = e.e_board in
        Printf.sprintf "ALIVE %s %d %d %d %d %s %s" (codes_of_str (eng_position e)) (int_of_z b.b_ply)
          (int_of_z (rep_get b.b_reps (b_hash h b))) (int_of_n b.b_result.outcome) (Dispatch2.reason_code b.b_result.rreason)
          (dec_of_n (b_noprogress h b)) (dec_of_z b.b_moves) in
      let m = (match !st with
          | None -> "EXIT"
          | Some s -> obs_of s) in
      if m <> o then report_mismatch line (Printf.sprintf "line#%d: %s" i m);
      (* specification: the game the line describes, from the line alone *)
      if str_lower_is cmd "position" then begin
        (* the same line set up from scratch on a fresh engine: everything observed, the recorded result included *)
        (match cmd_position zt { d_eng = empty_engine (); d_last = [] } l with
         | Running s0 ->
           let m0 = obs_of s0 in
           if m0 <> o && o <> "EXIT" then
             report_spec ~key:"prop=C10" line (Printf.sprintf "line#%d: engine state [%s] differs from the state after the same command on a fresh engine [%s] (fen ply repetitions outcome reason clock moves)" i o m0)
         | Exited -> ());
        match setup l with
        | Some g ->
          bump "ucipos/position-line";
          (match ws o with
           | ["EXIT"] -> report_spec ~key:"prop=C10" line (Printf.sprintf "line#%d: the driver shut down on a valid position command" i)
           | "ALIVE" :: f :: ply :: reps :: _ ->
             (match fen_matches_game (str_of_codes f) g with
              | Some what -> report_spec ~key:"prop=C10" line (Printf.sprintf "line#%d: engine game differs from the one the command describes: %s" i what)
              | None ->
                if int_of_string ply <> 1 + List.length g.g_past then
                  report_spec ~key:"prop=C10" line (Printf.sprintf "line#%d: history has %s positions, the command describes %d" i ply (1 + List.length g.g_past))
                else begin
                  let occ = int_of_z (occurrences (g.g_pos, g.g_turn) g.g_past) in
                  if occ >= 2 then bump "ucipos/repeated-position";
                  if int_of_string reps <> occ then
                    report_spec ~key:"prop=C10" line (Printf.sprintf "line#%d: repetition count %s, the command describes %d occurrences" i reps occ)
                end)
           | _ -> ())
        | None -> bump "ucipos/undescribed-line"
      end) lines

let handle (line : string) (kind : string) (args : string list) (obs : string) : unit =
  match kind with
  | "fenrt" -> handle_fenrt line args obs
  | "decode" -> handle_decode line args obs
  | "parsemove" -> handle_parsemove line args obs
  | "parsesq" -> handle_parsesq line args obs
  | "engmove" -> handle_engmove line args obs
  | "engfen" -> engfen_prop := "prop=C14"; handle_engfen line args obs
  | "enggame" -> engfen_prop := "prop=C19"; handle_engfen line args obs
  | "ucipos" -> handle_ucipos line args obs
  | _ -> failwith ("unknown case kind: " ^ line)
