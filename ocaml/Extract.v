(** Extraction of the executable model and specification for the correspondence check and the
    failing-input search.  ExtrOcamlBasic only (bool, option, unit, list, prod, sumbool mapped to
    OCaml's own types); no Extract Constant; N/Z/nat/positive stay Coq datatypes.
    Run by tools/check.py inside /verif/ocaml (coqc writes model.ml into the current directory). *)
From Coq Require Extraction ExtrOcamlBasic.
From Coq Require Import ZArith NArith List.
From Morlock.Model Require Import Score.
Extraction Language OCaml.
Extraction "model.ml"
  Score.less Score.negate Score.inc Score.dec Score.smax Score.smin Score.mate_distance Score.go_eq
  Score.rank Score.rank_lt Score.valid Score.score_eqb Score.T Score.U
  N.land Nat.add.
