(** Extraction of the executable model and specification for the correspondence check and the
    failing-input search.  ExtrOcamlBasic only (bool, option, unit, list, prod, sumbool mapped to
    OCaml's own types); no Extract Constant; N/Z/nat/positive stay Coq datatypes.
    Run by ocaml/build.sh inside /verif/ocaml (coqc writes model.ml into the current directory). *)
From Coq Require Extraction ExtrOcamlBasic.
From Coq Require Import ZArith NArith List.
From Morlock.Model Require Import Score Bits Attacks Move Position Zobrist Board Abs Search TT SearchBoard Fen Engine EngineSpec UciSeq Queries Driver.
From Morlock.Spec Require Chess Game Minimax.
From Morlock.Model Require Engines.
Extraction Language OCaml.
Extraction "model.ml"
  Score.less Score.negate Score.inc Score.dec Score.smax Score.smin Score.mate_distance Score.go_eq
  Score.rank Score.rank_lt Score.valid Score.score_eqb Score.T Score.U
  N.land Nat.add
  Bits.popcount Bits.ctz Bits.bits_asc Bits.bitmask Bits.bitrank Bits.bitfile
  Attacks.rook_attackboard Attacks.bishop_attackboard Attacks.queen_attackboard Attacks.king_attackboard
  Attacks.knight_attackboard Attacks.pawn_captureboard Attacks.pawn_moveboard Attacks.new_rotated Attacks.rot_xor
  Attacks.attackboard
  Move.castling_rights_lost Move.move_eqb Move.move_equals
  Position.pseudo_legal_moves Position.pos_move Position.legal_moves Position.square Position.is_attacked
  Position.is_checked Position.is_checkmate Position.has_insufficient_material Position.pos_eqb Position.new_position
  Position.is_attacked_by Position.pos_xor
  Zobrist.zhash Zobrist.zmove
  Board.new_board Board.fork Board.push_move Board.pop_move Board.adjudicate_no_legal_moves Board.last_move
  Board.second_to_last_move Board.has_castled Board.has_moved Board.b_position Board.b_hash Board.b_noprogress
  Abs.abs_pos Abs.abs_move Abs.inv_b Abs.wf_b Abs.color_of Abs.kind_of Abs.code_of_kind Abs.code_of_color
  Chess.spec_legal Chess.apply_move Chess.in_check Chess.attacked Chess.spec_perft Chess.spos_eqb Chess.smove_eqb
  Chess.checkmate Chess.stalemate Chess.candidates Chess.attacks_from Chess.occupied Chess.captured Chess.moving
  Chess.is_ep_move Chess.is_castling_move Chess.is_double_step
  Game.g_start Game.g_play Game.insufficient Game.occurrences
  Search.movelist Search.mvvlva
  SearchBoard.search_board SearchBoard.minimax_board SearchBoard.material SearchBoard.full_exploration SearchBoard.captures_only SearchBoard.checks_or_captures
  SearchBoard.f32_of_int
  TT.new_table TT.key Bits.nthN TT.tt_read TT.tt_write_ok TT.tt_used TT.tt_occupied TT.val TT.cstep TT.crun TT.c_init TT.c_occupied TT.c_quiescent
  Minimax.spec_mm Minimax.spec_qv Minimax.spec_material_int
  Fen.decode Fen.encode Fen.parse_move Fen.parse_square_str Fen.parse_piece Fen.atoi Fen.itoa Fen.fen_initial
  Engine.eng_reset Engine.eng_move Engine.eng_takeback Engine.eng_position Engine.cmd_position Engine.cmd_ucinewgame
  EngineSpec.setup EngineSpec.smove_of_str EngineSpec.gstate_of_fen EngineSpec.wf_value
  UciSeq.go_depth UciSeq.u_position UciSeq.iterate
  Driver.obs_ok Driver.obs_counts_ok
  Queries.find_capture Queries.find_pins Queries.spec_capturers Queries.spec_pins
  Engines.material_pos Engines.turo_material_eval Engines.bern_material Engines.bern_mobility Engines.bern_control
  Engines.bern_king_defense Engines.bern_evaluate Engines.find_plausible_moves Engines.considerable_after
  Engines.mirror_pos.
