(* vdriver: reads observation lines written by the Go harness ("kind args => observed"), evaluates
   the extracted model and specification on the same input, and reports disagreements.
   Output: one line per disagreement
     MISMATCH <line> :: model=<...>      model and implementation differ (correspondence broken)
     SPECVIOL <line> :: spec=<...>       implementation differs from the specification (violation)
   and a final "DONE n=<cases> mismatch=<k> specviol=<k>". *)
open Model
open Conv

open Common
let cases = ref 0

let stype_of_int = function 1 -> Heuristic | 2 -> MateInX | 3 -> Inf | 4 -> NegInf | _ -> Invalid
let int_of_stype = function Invalid -> 0 | Heuristic -> 1 | MateInX -> 2 | Inf -> 3 | NegInf -> 4

let score_of (t : string) (m : string) (b : string) : score =
  { sty = stype_of_int (int_of_string t); smate = z_of_int (int_of_string m); sbits = z_of_int (int_of_string b) }
let score_str (s : score) : string =
  Printf.sprintf "%d %d %d" (int_of_stype s.sty) (int_of_z s.smate) (int_of_z s.sbits)
let bool_str b = if b then "1" else "0"

let split_words = words

(* the monitors' domain: every constructor-built score except Invalid, NaN and Mate = 0 *)
let in_domain (s : score) : bool =
  match s.sty with
  | Invalid -> false
  | MateInX -> int_of_z s.smate <> 0
  | Heuristic -> let b = int_of_z s.sbits in (b land 0x7fffffff) <= 0x7f800000
  | _ -> true
let at_mate (l : int list) (s : score) : bool = s.sty = MateInX && List.mem (int_of_z s.smate) l
let key_of l ops = if List.exists (at_mate l) ops then "int8-boundary" else ""
let with_key k msg = if k = "" then msg else msg ^ " key=" ^ k

let handle_score line kind args obs =
  match kind, args with
  | "less", [t1; m1; b1; t2; m2; b2] ->
    let a = score_of t1 m1 b1 and b = score_of t2 m2 b2 in
    let m = bool_str (less a b) in
    if m <> obs then report_mismatch line m;
    if in_domain a && in_domain b then begin
      bump "less/valid-pair";
      let s = bool_str (rank_lt (rank a) (rank b)) in
      (* Less is right at the int8 boundary too (only Negate / IncrementMateDistance wrap there): no key *)
      if s <> obs then report_spec line s
    end else bump "less/invalid-operand"
  | ("negate" | "inc"), [t; m; b] ->
    let a = score_of t m b in
    let r = if kind = "negate" then negate a else inc a in
    bump kind;
    if score_str r <> obs then report_mismatch line (score_str r)
  | ("max" | "min"), [t1; m1; b1; t2; m2; b2] ->
    let a = score_of t1 m1 b1 and b = score_of t2 m2 b2 in
    let r = if kind = "max" then smax a b else smin a b in
    bump kind;
    if score_str r <> obs then report_mismatch line (score_str r);
    (* specification: the result is one of the operands and no operand lies above (max) / below (min) it
       in the rank order - at every mate distance, the int8 boundary included *)
    if in_domain a && in_domain b then begin
      let sa = score_str a and sb = score_str b in
      let ra = rank a and rb = rank b in
      let ok =
        if obs = sa then (if kind = "max" then not (rank_lt ra rb) else not (rank_lt rb ra))
        else if obs = sb then (if kind = "max" then not (rank_lt rb ra) else not (rank_lt ra rb))
        else false in
      if not ok then report_spec line ("the " ^ kind ^ " of the operands in the rank order")
    end
  | "negrev", [t1; m1; b1; t2; m2; b2] ->
    (* property monitor on the implementation: obs = "<Less(a,b)> <Less(-b,-a)>" *)
    let a = score_of t1 m1 b1 and b = score_of t2 m2 b2 in
    if in_domain a && in_domain b then begin
      bump "negrev/valid-pair";
      match split_words obs with
      | [x; y] -> if x <> y then report_spec line (with_key (key_of [-128] [a; b]) "a<b iff -b<-a")
      | _ -> failwith "bad negrev obs"
    end
  | "incmono", [t1; m1; b1; t2; m2; b2] ->
    (* obs = "<Less(a,b)> <Less(inc a, inc b)>" *)
    let a = score_of t1 m1 b1 and b = score_of t2 m2 b2 in
    if in_domain a && in_domain b then begin
      bump "incmono/valid-pair";
      match split_words obs with
      | [x; y] -> if x <> y then report_spec line (with_key (key_of [-128; 127] [a; b]) "a<b iff inc a<inc b")
      | _ -> failwith "bad incmono obs"
    end
  | "neginv", [t; m; b] ->
    (* obs = Negate(Negate a) *)
    let a = score_of t m b in
    if in_domain a then begin
      bump "neginv";
      if score_str a <> obs then report_spec line (with_key (key_of [-128] [a]) (score_str a))
    end
  | "hctor", [bits] ->
    (* HeuristicScore(v) carries exactly v (every float32 but NaN has its place on the line) *)
    let b = int_of_string ("0x" ^ bits) in
    let nan = (b land 0x7f800000) = 0x7f800000 && (b land 0x007fffff) <> 0 in
    if not nan then begin
      bump "hctor";
      let expect = Printf.sprintf "1 %x" b in
      if String.trim obs <> expect then report_spec line ("constructor not faithful: expected " ^ expect)
    end
  | "neglit", [bits] ->
    let b = int_of_string ("0x" ^ bits) in
    let nan = (b land 0x7f800000) = 0x7f800000 && (b land 0x007fffff) <> 0 in
    if not nan then begin
      bump "neglit";
      let expect = Printf.sprintf "1 0 %d" b in
      if String.trim obs <> expect then report_spec line ("negating a heuristic score twice: expected " ^ expect)
    end
  | _ -> failwith ("unknown score case: " ^ line)

let handle line =
  match String.index_opt line '=' with
  | None -> ()
  | Some _ ->
    let idx = (try Str.search_forward (Str.regexp_string " => ") line 0 with Not_found -> failwith ("no => in " ^ line)) in
    let lhs = String.sub line 0 idx and obs = String.sub line (idx + 4) (String.length line - idx - 4) in
    (match split_words lhs with
     | [] -> ()
     | kind :: args ->
       incr cases;
       (match kind with
        | "less" | "negate" | "inc" | "max" | "min" | "negrev" | "incmono" | "neginv" | "hctor" | "neglit" -> handle_score line kind args obs
        | _ -> Dispatch.handle line kind args obs))

let () =
  let ic = if Array.length Sys.argv > 1 then open_in Sys.argv.(1) else stdin in
  (try
     while true do
       let line = input_line ic in
       if String.length line > 0 && line.[0] <> '#' then handle line
     done
   with End_of_file -> ());
  Hashtbl.iter (fun k v -> Printf.printf "CLASS %s %d\n" k v) classes;
  Printf.printf "DONE n=%d mismatch=%d specviol=%d\n" !cases !mismatches !specviol
