(* Transposition table sequences (C17, sequential part). *)
open Model
open Common
open Conv

let split_on c s = String.split_on_char c s
let ws s = List.filter (fun w -> w <> "") (split_on ' ' s)

let handle_ttseq line args obs =
  match args with
  | size :: "::" :: ops ->
    let observed = ws obs in
    if List.length observed <> List.length ops then failwith "ttseq: obs count";
    (match new_table (n_of_int (int_of_string size)) with
     | None -> failwith "ttseq: size"
     | Some t0 ->
       let t = ref t0 in
       let written : (string, string list) Hashtbl.t = Hashtbl.create 16 in
       List.iteri (fun i op ->
           let o = List.nth observed i in
           (match split_on ':' op with
            | ["r"; h] ->
              let m = (match tt_read !t (n_of_hex h) with
                  | Some (((bound, d), sc), mv) ->
                    Printf.sprintf "hit:%d:%d:%s:%d:%d:%d" (int_of_n bound) (int_of_z d) (Dispatch3.score_str sc) (int_of_n mv.mfrom) (int_of_n mv.mto) (int_of_n mv.mpromo)
                  | None -> "miss") in
              if m <> o then report_mismatch line (Printf.sprintf "op#%d: %s" i m);
              bump (if o = "miss" then "tt/miss" else "tt/hit");
              if o <> "miss" then begin
                let ws_ = (try Hashtbl.find written h with Not_found -> []) in
                if not (List.mem o ws_) then report_spec ~key:"prop=C17" line (Printf.sprintf "op#%d: lookup returned %s, which no single store for that hash wrote" i o)
              end
            | ["w"; h; bound; ply; depth; sc; f; to_; pr] ->
              let mv = { mtype = N0; mfrom = n_of_int (int_of_string f); mto = n_of_int (int_of_string to_); mpiece = N0; mpromo = n_of_int (int_of_string pr); mcapture = N0 } in
              let old = nthN !t.slots (key !t (n_of_hex h)) None in
              let (t1, ok) = tt_write_ok !t (n_of_hex h) (n_of_int (int_of_string bound)) (z_of_int (int_of_string ply)) (z_of_int (int_of_string depth)) (Dispatch3.parse_score sc) mv in
              t := t1;
              let m = if ok then "w1" else "w0" in
              if m <> o then report_mismatch line (Printf.sprintf "op#%d: %s" i m);
              (* specification: a store only replaces an entry of no greater replacement value, the value
                 of an entry being what it is worth once resident (uint16 ply + 2*depth) *)
              (match old with
               | Some _ when o = "w1" ->
                 let (t2, _) = tt_write_ok { slots = List.map (fun _ -> None) !t.slots; used = N0 } (n_of_hex h) (n_of_int (int_of_string bound)) (z_of_int (int_of_string ply)) (z_of_int (int_of_string depth)) (Dispatch3.parse_score sc) mv in
                 let fresh = nthN t2.slots (key t2 (n_of_hex h)) None in
                 if int_of_n (val0 fresh) < int_of_n (val0 old) then
                   report_spec ~key:"prop=C17 key=replaced-greater" line (Printf.sprintf "op#%d: the store (ply %s, depth %s, value %d once resident) replaced an entry of greater replacement value %d" i ply depth (int_of_n (val0 fresh)) (int_of_n (val0 old)))
               | _ -> ());
              bump (if o = "w1" then (match old with None -> "tt/store-empty" | Some _ -> "tt/store-replace") else "tt/store-refused");
              let tuple = Printf.sprintf "hit:%s:%d:%s:%s:%s:%s" bound ((int_of_string depth) land 65535) sc f to_ pr in
              Hashtbl.replace written h (tuple :: (try Hashtbl.find written h with Not_found -> []))
            | ["u"] ->
              let (u, n) = tt_used !t in
              let m = Printf.sprintf "u:%d:%d:%d:%d" (int_of_n n) (int_of_n (tt_occupied !t)) (int_of_n u) (32 * int_of_n n) in
              if m <> o then report_mismatch line (Printf.sprintf "op#%d: %s" i m);
              bump "tt/used";
              (match split_on ':' o with
               | ["u"; n; occ; used; _] ->
                 if used <> occ then report_spec ~key:"prop=C17" line (Printf.sprintf "op#%d: fill counter %s but %s of %s slots occupied" i used occ n)
               | _ -> ())
            | _ -> failwith ("bad ttseq op " ^ op))) ops)
  | _ -> failwith ("bad ttseq: " ^ short line)

let handle (line : string) (kind : string) (args : string list) (obs : string) : unit =
  match kind with
  | "ttseq" -> handle_ttseq line args obs
  | _ -> failwith ("unknown case kind: " ^ line)
