(* Searches (C03, C11, C12, C13): the model search on the model board and the reference minimax on
   the specification game are evaluated on the configuration the implementation ran. *)
open Model
open Common
open Conv

let split_on c s = String.split_on_char c s
let trim = String.trim
let split_str (sep : string) (s : string) : string list = Str.split_delim (Str.regexp_string sep) s

let parse_pos = Dispatch2.parse_pos
let parse_move = Dispatch2.parse_move
let move_str = Dispatch2.move_str

let stype_of_int = function 1 -> Heuristic | 2 -> MateInX | 3 -> Inf | 4 -> NegInf | _ -> Invalid
let int_of_stype = function Invalid -> 0 | Heuristic -> 1 | MateInX -> 2 | Inf -> 3 | NegInf -> 4
let parse_score (tok : string) : score =
  match split_on ',' tok with
  | [t; m; b] -> { sty = stype_of_int (int_of_string t); smate = z_of_int (int_of_string m); sbits = z_of_int (int_of_string b) }
  | _ -> failwith ("bad score " ^ tok)
let score_str (s : score) : string = Printf.sprintf "%d,%d,%d" (int_of_stype s.sty) (int_of_z s.smate) (int_of_z s.sbits)
let pv_str (pv : move list) : string = if pv = [] then "-" else String.concat ";" (List.map move_str pv)

type cfg = { depths : int list; quiet : bool; tt : string; low : score; high : score; cancel : int; ex : string }

let parse_cfg (toks : string list) : cfg =
  let get k = let pre = k ^ "=" in
    match List.find_opt (fun t -> String.length t > String.length pre && String.sub t 0 (String.length pre) = pre) toks with
    | Some t -> String.sub t (String.length pre) (String.length t - String.length pre)
    | None -> failwith ("cfg key missing: " ^ k) in
  { depths = List.map int_of_string (split_on ',' (get "depths")); quiet = (get "q" = "1"); tt = get "tt";
    low = parse_score (get "low"); high = parse_score (get "high"); cancel = int_of_string (get "cancel");
    ex = (try get "ex" with Failure _ -> "full") }

let make_tt (spec : string) : ttv =
  match split_on ':' spec with
  | ["none"] -> NoTT
  | ["size"; n] -> (match new_table (n_of_int (int_of_string n)) with Some t -> TableTT t | None -> failwith "tt size")
  | ["min"; k; n] -> (match new_table (n_of_int (int_of_string n)) with Some t -> MinDepthTT (z_of_int (int_of_string k), t) | None -> failwith "tt size")
  | _ -> failwith ("bad tt " ^ spec)

let qfuel = nat_of_int 40

let model_leaf (g : gboard) : z = material g
let spec_leaf (g : gstate) : z = f32_of_int (spec_material_int g)

(* set up the model board and the specification game from the start and the history *)
let setup (zt : ztable) (p0 : position) (t0 : n) (np : int) (fm : int) (hist : move list) =
  let (h0, b0) = new_board zt [] p0 t0 (n_of_int np) (z_of_int fm) in
  let legal = wf_b p0 t0 in
  let g0 = if legal then Some (g_start (abs_pos p0) (color_of t0) (z_of_int np) (z_of_int fm)) else None in
  List.fold_left (fun ((h, b), g) m ->
      let ((h1, b1), _) = push_move zt h b m in
      ((h1, b1), (match g with Some g -> Some (g_play g (abs_move m)) | None -> None))) ((h0, b0), g0) hist

let run_model (zt : ztable) (c : cfg) (g : gboard) (t : ttv) (depth : int) =
  let cancel = (fun (n : nat) -> c.cancel >= 0 && int_of_nat n >= c.cancel) in
  search_board zt (if c.ex = "checks" then checks_or_captures else full_exploration) (captures_only) model_leaf cancel c.quiet qfuel g t [] (nat_of_int depth) c.low c.high

let spec_value (c : cfg) (g : gstate) (depth : int) (root : bool) : score =
  let expl = if c.ex = "checks" then (fun (g : gstate) (g' : gstate) m -> is_capture_move g.g_pos m || in_check g'.g_pos.brd g'.g_turn)
    else (fun _ _ _ -> true) in
  spec_mm expl (fun g _ m -> is_capture_move g.g_pos m) spec_leaf c.quiet qfuel (nat_of_int depth) root g

let lt a b = less a b
let le a b = not (less b a)
let eqv a b = le a b && le b a

(* the three-case contract of C13 *)
let contract_ok (a : score) (b : score) (v : score) (r : score) : bool =
  if lt a v && lt v b then eqv r v
  else if le v a then le v r && le r a
  else le b r && le r v

(* C08-style comparison of two implementation observations, result class only *)
let same_state (o1 : string) (o2 : string) : bool =
  let f o = List.filteri (fun i _ -> i <> 0 && i <> 9 && i <> 10) (List.filter (fun w -> w <> "") (split_on ' ' o)) in
  let outcome o = (try List.nth (List.filter (fun w -> w <> "") (split_on ' ' o)) 9 with _ -> "?") in
  let cls x = if x = "0" || x = "1" then "undecided" else x in
  f o1 = f o2 && (cls (outcome o1) = cls (outcome o2) || outcome o1 = "0" || outcome o1 = "1")

let pv_check (g : gstate) (c : cfg) (depth : int) (v : score) (pv : move list) : string option =
  (* legal line from the root, no longer than the depth, first move attains the value *)
  if List.length pv > depth then Some "principal variation longer than the depth" else
  let rec walk g l = match l with
    | [] -> None
    | m :: r ->
      let sm = abs_move m in
      if not (List.exists (fun x -> smove_eqb x sm) (spec_legal g.g_pos g.g_turn)) then Some ("illegal move in the principal variation: " ^ move_str m)
      else walk (g_play g sm) r in
  match walk g pv with
  | Some e -> Some e
  | None ->
    (match pv with
     | [] ->
       (* with a selective exploration no legal move may be among the explored ones: the value is then the
          fold's initial -inf and there is nothing to report *)
       if c.ex <> "full" && v.sty = NegInf then None
       else if depth > 0 && spec_legal g.g_pos g.g_turn <> [] then Some "empty principal variation although a legal move exists" else None
     | m :: _ ->
       let child = g_play g (abs_move m) in
       let cv = t (spec_value c child (depth - 1) false) in
       if eqv cv v then None else Some (Printf.sprintf "first move of the principal variation has value %s, not %s" (score_str cv) (score_str v)))

let handle_absearch line args obs =
  match args with
  | zseed :: ptok :: turn :: np :: fm :: htok :: cfgtoks ->
    let zt = (try Hashtbl.find Dispatch2.zkeys zseed with Not_found -> failwith "zkeys line missing") in
    let c = parse_cfg cfgtoks in
    let p0 = parse_pos ptok and t0 = n_of_int (int_of_string turn) in
    let hist = if htok = "-" then [] else List.map parse_move (split_on ';' htok) in
    let (g, sg0) = setup zt p0 t0 (int_of_string np) (int_of_string fm) hist in
    let sgr = ref sg0 in
    (* then=k:m;m;.. : moves played (table kept) before search number k *)
    let then_at, then_moves =
      (match List.find_opt (fun t -> String.length t > 5 && String.sub t 0 5 = "then=") cfgtoks with
       | Some t -> (match split_on ':' (String.sub t 5 (String.length t - 5)) with
           | [k; ms] -> (int_of_string k, List.map parse_move (split_on ';' ms))
           | _ -> failwith "bad then=")
       | None -> (-1, [])) in
    (match split_str " || " obs with
     | [results; before; after] ->
       let res = List.map trim (split_str " | " results) in
       if List.length res <> List.length c.depths then failwith "absearch: result count";
       let full_window = (c.low.sty = NegInf && c.high.sty = Inf) in
       let tt = ref (make_tt c.tt) in
       let gcur = ref g in
       List.iteri (fun i d ->
           let r = List.nth res i in
           if i = then_at then
             List.iter (fun m ->
                 let (h, b) = !gcur in
                 let ((h1, b1), _) = push_move zt h b m in
                 gcur := (h1, b1);
                 sgr := (match !sgr with Some gs -> Some (g_play gs (abs_move m)) | None -> None)) then_moves;
           let sg = !sgr in
           let hist = if then_at >= 0 then hist @ then_moves else hist in
           (match List.filter (fun w -> w <> "") (split_on ' ' r) with
            | [halted; nodes; sc; pv; polls; _nw; nafter; writes] ->
              (* model *)
              let ((((st, mnodes), msc), mpv), mhalted) = run_model zt c !gcur !tt d in
              gcur := st.s_g; tt := st.s_tt;
              let mstr = Printf.sprintf "%s %d %s %s %d" (if mhalted then "1" else "0") (int_of_n mnodes) (score_str msc) (pv_str mpv) (int_of_nat st.s_polls) in
              let istr = Printf.sprintf "%s %s %s %s %s" halted nodes sc pv polls in
              if mstr <> istr then report_mismatch line (Printf.sprintf "search#%d: %s" i mstr);
              bump (Printf.sprintf "search/depth%d" d);
              if c.quiet then bump "search/quiescence";
              if c.tt <> "none" then bump "search/table";
              (* specification *)
              (match sg with
               | Some sgame when c.cancel < 0 ->
                 let v = spec_value c sgame d true in
                 let rsc = parse_score sc in
                 if v.sty = MateInX || v.sty = Inf || v.sty = NegInf then bump "search/mate-value";
                 if full_window && c.tt <> "none" && hist <> [] then begin
                   (* a table shared across a game with repetitions: stored values may legitimately be stale
                      (excluded by C11), but a position at which a draw can be claimed is worth 0 whatever the
                      table says, so a root with such a successor is worth at least 0 *)
                   bump "search/table-with-history";
                   let kids = List.map (fun sm -> g_play sgame sm) (spec_legal sgame.g_pos sgame.g_turn) in
                   if d >= 1 && List.exists (fun k -> drawn_here k) kids && lt rsc zero_score then
                     report_spec ~key:"prop=C13" line (Printf.sprintf "search#%d depth %d: returned %s although a move leads to a position at which a draw can be claimed (worth 0)" i d sc)
                 end else
                 if full_window then begin
                   bump "search/full-window";
                   let prop = if c.tt = "none" then "prop=C03" else "prop=C11" in
                   if not (eqv rsc v) then report_spec ~key:prop line (Printf.sprintf "search#%d depth %d: returned %s, minimax value %s" i d sc (score_str v))
                   else begin
                     let pvm = if pv = "-" then [] else List.map parse_move (split_on ';' pv) in
                     (* with a table a cut-off below the root may shorten the variation; the first move must still be best *)
                     match pv_check sgame c d v pvm with
                     | Some e -> report_spec ~key:prop line (Printf.sprintf "search#%d depth %d: %s" i d e)
                     | None -> ()
                   end
                 end else begin
                   bump "search/window";
                   if lt c.low c.high && not (contract_ok c.low c.high v rsc) then
                     report_spec ~key:"prop=C13" line (Printf.sprintf "search#%d depth %d window (%s, %s): returned %s, true value %s" i d (score_str c.low) (score_str c.high) sc (score_str v))
                 end;
                 (* exact table entries are true values (history-free positions) *)
                 if writes <> "-" && hist = [] then
                   List.iter (fun w ->
                       match split_on '/' w with
                       | [wp; wt; wd; ws] ->
                         let wpos = parse_pos wp and wturn = n_of_int (int_of_string wt) in
                         if wf_b wpos wturn then begin
                           bump "tt/exact-write-checked";
                           let wg = g_start (abs_pos wpos) (color_of wturn) (z_of_int 0) (z_of_int 1) in
                           let wv = spec_value c wg (int_of_string wd) false in
                           if not (eqv (parse_score ws) wv) then
                             report_spec ~key:"prop=C11" line (Printf.sprintf "search#%d: exact entry %s at depth %s stored for a position whose value is %s" i ws wd (score_str wv))
                         end
                       | _ -> ()) (split_on ';' writes)
               | _ -> ());
              if nafter <> "0" then report_spec ~key:"prop=C12" line (Printf.sprintf "search#%d: %s table writes after cancellation" i nafter)
            | _ -> failwith ("absearch: bad result " ^ r))) c.depths;
       if not (same_state before after) then
         report_spec ~key:(if c.cancel >= 0 then "prop=C12" else "prop=C03") line (Printf.sprintf "board not handed back in the state it was received: before [%s] after [%s]" before after)
     | _ -> failwith "absearch: bad obs")
  | _ -> failwith ("bad absearch line: " ^ short line)

(* halt zseed P turn np fm cfg... cancel=n => halted nodes score pv nwrites nafter || before || after || err2 score2 first2 || err3 score3 first3 *)
let handle_halt line args obs =
  match args with
  | zseed :: ptok :: turn :: np :: fm :: rest ->
    let zt = (try Hashtbl.find Dispatch2.zkeys zseed with Not_found -> failwith "zkeys line missing") in
    let rest = List.filter (fun t -> t <> "") rest in
    (* the last cancel= token wins *)
    let n = (match List.rev (List.filter (fun t -> String.length t > 7 && String.sub t 0 7 = "cancel=") rest) with
        | t :: _ -> int_of_string (String.sub t 7 (String.length t - 7)) | [] -> failwith "halt: cancel") in
    let c0 = parse_cfg rest in
    let c = { c0 with cancel = n } in
    let p0 = parse_pos ptok and t0 = n_of_int (int_of_string turn) in
    let (g, _) = setup zt p0 t0 (int_of_string np) (int_of_string fm) [] in
    (match split_str " || " obs with
     | [r1; before; after; r2; r3] ->
       let d = List.hd c.depths in
       (match List.filter (fun w -> w <> "") (split_on ' ' r1), List.filter (fun w -> w <> "") (split_on ' ' r2), List.filter (fun w -> w <> "") (split_on ' ' r3) with
        | [halted; nodes; sc; pv; _nw; nafter], [e2; s2; f2], [e3; s3; f3] ->
          let ((((st, mnodes), msc), mpv), mhalted) = run_model zt c g (make_tt c.tt) d in
          let mstr = Printf.sprintf "%s %d %s %s" (if mhalted then "1" else "0") (int_of_n mnodes) (score_str msc) (pv_str mpv) in
          if mstr <> Printf.sprintf "%s %s %s %s" halted nodes sc pv then report_mismatch line ("halted run: " ^ mstr);
          (* follow-up on the same table, model *)
          let c2 = { c with cancel = -1 } in
          let ((((_, _), msc2), mpv2), mh2) = run_model zt c2 st.s_g st.s_tt d in
          let m2 = Printf.sprintf "%s %s %s" (if mh2 then "1" else "0") (score_str msc2) (match mpv2 with m :: _ -> move_str m | [] -> "-") in
          if m2 <> Printf.sprintf "%s %s %s" e2 s2 f2 then report_mismatch line ("follow-up run: " ^ m2);
          bump (if halted = "1" then "halt/halted" else "halt/completed-before-cancel");
          (* C12 on the implementation *)
          if halted = "1" && sc <> "0,0,0" then report_spec ~key:"prop=C12" line "halted search returned a score";
          if not (same_state before after) then report_spec ~key:"prop=C12" line (Printf.sprintf "halted search did not hand the board back: before [%s] after [%s]" before after);
          if nafter <> "0" then report_spec ~key:"prop=C12" line (Printf.sprintf "%s table writes after cancellation" nafter);
          if e2 <> e3 || not (eqv (parse_score s2) (parse_score s3)) then
            report_spec ~key:"prop=C12" line (Printf.sprintf "search after the halted one returned %s, without it %s" s2 s3)
        | _ -> failwith "halt: bad fields")
     | _ -> failwith "halt: bad obs")
  | _ -> failwith ("bad halt line: " ^ short line)

let handle (line : string) (kind : string) (args : string list) (obs : string) : unit =
  match kind with
  | "absearch" -> handle_absearch line args obs
  | "halt" -> handle_halt line args obs
  | _ -> failwith ("unknown case kind: " ^ line)
