(* Conversions between OCaml values and the extracted Coq datatypes (positive, N, Z, nat). *)
open Model

let rec pos_of_int (n : int) : positive =
  if n = 1 then XH else if n land 1 = 0 then XO (pos_of_int (n lsr 1)) else XI (pos_of_int (n lsr 1))

let rec int_of_pos (p : positive) : int =
  match p with XH -> 1 | XO q -> 2 * int_of_pos q | XI q -> 2 * int_of_pos q + 1

let z_of_int (n : int) : z = if n = 0 then Z0 else if n > 0 then Zpos (pos_of_int n) else Zneg (pos_of_int (-n))
let int_of_z (v : z) : int = match v with Z0 -> 0 | Zpos p -> int_of_pos p | Zneg p -> - (int_of_pos p)

let n_of_int (n : int) : n = if n = 0 then N0 else Npos (pos_of_int n)
let int_of_n (v : n) : int = match v with N0 -> 0 | Npos p -> int_of_pos p

(* decimal strings of up to 19 digits (Go int): through Int64, bit by bit *)
let n_of_int64 (v : int64) : n =
  if Int64.compare v 0L <= 0 then N0 else begin
    let rec go (v : int64) : positive =
      if Int64.equal v 1L then XH
      else if Int64.equal (Int64.logand v 1L) 0L then XO (go (Int64.shift_right_logical v 1))
      else XI (go (Int64.shift_right_logical v 1)) in
    Npos (go v)
  end
let int64_of_n (v : n) : int64 =
  let rec go (p : positive) : int64 =
    match p with XH -> 1L | XO q -> Int64.shift_left (go q) 1 | XI q -> Int64.logor (Int64.shift_left (go q) 1) 1L in
  match v with N0 -> 0L | Npos p -> go p
let n_of_dec (s : string) : n = n_of_int64 (Int64.of_string s)
let z_of_dec (s : string) : z =
  let v = Int64.of_string s in
  if Int64.equal v 0L then Z0
  else if Int64.compare v 0L > 0 then (match n_of_int64 v with Npos p -> Zpos p | N0 -> Z0)
  else (match n_of_int64 (Int64.neg v) with Npos p -> Zneg p | N0 -> Z0)
(* decimal rendering of model numbers of any size (Go prints an int64; a model value may exceed it): bits of the
   positive, most significant first, folded into a decimal digit string by doubling *)
let dec_of_pos (p : positive) : string =
  let rec bits (p : positive) (acc : int list) : int list =
    match p with XH -> 1 :: acc | XO q -> bits q (0 :: acc) | XI q -> bits q (1 :: acc) in
  let double_add (ds : int list) (b : int) : int list =
    (* ds least significant digit first *)
    let rec go ds carry = match ds with
      | [] -> if carry = 0 then [] else [carry]
      | d :: r -> let v = 2 * d + carry in (v mod 10) :: go r (v / 10) in
    go ds b in
  let ds = List.fold_left double_add [] (bits p []) in
  String.concat "" (List.rev_map string_of_int ds)
let dec_of_n (v : n) : string = match v with N0 -> "0" | Npos p -> dec_of_pos p
let dec_of_z (v : z) : string = match v with Z0 -> "0" | Zpos p -> dec_of_pos p | Zneg p -> "-" ^ dec_of_pos p

let rec nat_of_int (n : int) : nat = if n <= 0 then O else S (nat_of_int (n - 1))
let rec int_of_nat (n : nat) : int = match n with O -> 0 | S m -> 1 + int_of_nat m

(* 64-bit words travel as 16-digit hex strings; OCaml ints have 63 bits, so build positives from digits. *)
let n_of_hex (s : string) : n =
  (* most significant digit first *)
  let bits = ref [] in
  String.iter (fun c ->
    let d = match c with
      | '0'..'9' -> Char.code c - 48
      | 'a'..'f' -> Char.code c - 87
      | 'A'..'F' -> Char.code c - 55
      | _ -> failwith ("bad hex digit in " ^ s) in
    bits := (d land 1 = 1) :: (d land 2 = 2) :: (d land 4 = 4) :: (d land 8 = 8) :: !bits) s;
  (* !bits is least significant first *)
  let rec strip l = match l with false :: r -> strip r | _ -> l in
  let msb_first = strip (List.rev !bits) in
  match msb_first with
  | [] -> N0
  | _ :: rest ->
    (* leading one *)
    let p = List.fold_left (fun acc b -> if b then XI acc else XO acc) XH rest in
    Npos p

let hex_of_n (v : n) : string =
  match v with
  | N0 -> "0"
  | Npos p ->
    let rec bits p acc = match p with XH -> true :: acc | XO q -> bits q (false :: acc) | XI q -> bits q (true :: acc) in
    let msb_first = bits p [] in
    let l = List.length msb_first in
    let pad = (4 - l mod 4) mod 4 in
    let all = (List.init pad (fun _ -> false)) @ msb_first in
    let buf = Buffer.create 16 in
    let rec go l = match l with
      | a :: b :: c :: d :: r ->
        let v = (if a then 8 else 0) + (if b then 4 else 0) + (if c then 2 else 0) + (if d then 1 else 0) in
        Buffer.add_char buf "0123456789abcdef".[v]; go r
      | _ -> () in
    go all; Buffer.contents buf
