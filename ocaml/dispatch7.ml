(* C20: the historical engines' evaluation terms and move filters (Model/Engines.v) against the Go code.
   engines P turn :: m/safe/safeorigin;... => mat=<int> turo=<float32 bits> bern=<mat,mob,ctl,kd,e20,e0>/<same for the opponent>
                                              plaus=<m;m;...> consid=<0/1 per legal move, in the order given> *)
open Model
open Conv
open Common

let parse_pos = Dispatch2.parse_pos
let parse_move = Dispatch2.parse_move
let move_str = Dispatch2.move_str

let field (fields : string list) (k : string) : string =
  let pre = k ^ "=" in
  match List.find_opt (fun t -> String.length t >= String.length pre && String.sub t 0 (String.length pre) = pre) fields with
  | Some t -> String.sub t (String.length pre) (String.length t - String.length pre)
  | None -> failwith ("engines: field missing: " ^ k)

let handle_engines line args obs =
  match args with
  | ptok :: turn :: "::" :: rest ->
    let p = parse_pos ptok and t = n_of_int (int_of_string turn) in
    let entries = (match rest with [] | ["-"] -> [] | [l] -> split_on ';' l | _ -> failwith "engines: moves") in
    let table = List.map (fun e -> match split_on '/' e with
        | [m; s; so] -> (parse_move m, (s = "1", so = "1"))
        | _ -> failwith "engines: entry") entries in
    let look f m = (match List.find_opt (fun (x, _) -> move_eqb x m) table with Some (_, v) -> f v | None -> false) in
    let safe = look fst and safe_origin = look snd in
    let fields = List.filter (fun w -> w <> "") (split_on ' ' obs) in
    bump "engines";
    (* generic material *)
    let m1 = string_of_int (int_of_z (material_pos p t)) in
    if m1 <> field fields "mat" then report_mismatch line ("mat=" ^ m1);
    (* TUROCHAMP material ratio as a float32 *)
    (match turo_material_eval p t with
     | Some r ->
       let v = float_of_int (int_of_z r.r_num) /. float_of_int (int_of_z r.r_den) in
       let v = if r.r_neg then -. v else v in
       let bits = Printf.sprintf "%lx" (Int32.bits_of_float v) in
       let bits = if v = 0.0 then "0" else bits in
       if bits <> field fields "turo" then report_mismatch line ("turo=" ^ bits)
     | None -> report_mismatch line "turo=panic");
    (* BERNSTEIN terms for both sides *)
    let terms side = String.concat "," (List.map (fun z -> string_of_int (int_of_z z))
        [bern_material p side; bern_mobility p side; bern_control p side; bern_king_defense p side;
         bern_evaluate p (z_of_int 20) side; bern_evaluate p (z_of_int 0) side]) in
    let other = if int_of_n t = 0 then n_of_int 1 else n_of_int 0 in
    let b = terms t ^ "/" ^ terms other in
    if b <> field fields "bern" then report_mismatch line ("bern=" ^ b);
    (* plausible moves, in order *)
    let pm = String.concat ";" (List.map move_str (find_plausible_moves safe safe_origin p t)) in
    let pm = if pm = "" then "-" else pm in
    if pm <> field fields "plaus" then report_mismatch line ("plaus=" ^ pm);
    (* considerable moves *)
    let cs = String.concat "" (List.map (fun (m, _) ->
        match considerable_after p t None m with Some true -> "1" | Some false -> "0" | None -> "P") table) in
    let cs = if cs = "" then "-" else cs in
    if cs <> field fields "consid" then report_mismatch line ("consid=" ^ cs)
  | _ -> failwith ("bad engines line: " ^ short line)

let handle (line : string) (kind : string) (args : string list) (obs : string) : unit =
  match kind with
  | "engines" -> handle_engines line args obs
  | _ -> Dispatch6.handle line kind args obs
