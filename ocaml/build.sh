#!/bin/sh
# Extract the model from the compiled Coq development and build the driver. Run inside /verif/ocaml.
set -e
cd /verif/ocaml
C=/verif/coq
coqc -Q $C/gen Morlock.gen -Q $C/Model Morlock.Model -Q $C/Spec Morlock.Spec -Q $C/Lemmas Morlock.Lemmas -Q $C/Impl Morlock.Impl Extract.v > extract.log 2>&1 || { cat extract.log; exit 1; }
ocamlfind ocamlopt -package str -linkpkg -w -a model.mli model.ml conv.ml common.ml dispatch2.ml dispatch3.ml dispatch4.ml dispatch5.ml dispatch6.ml dispatch7.ml dispatch.ml driver.ml -o /verif/build/vdriver
