(* Board scripts: sequences of NewBoard / PushMove / PopMove / Fork / Adjudicate operations on game
   boards sharing history, with every getter observed after every operation (C05, C07, C08). *)
open Model
open Common
open Conv

(* --- shared with dispatch.ml (duplicated here to keep the dependency order simple) --- *)
let split_on c s = String.split_on_char c s
let parse_pos (tok : string) : position =
  match List.map n_of_hex (split_on ',' tok) with
  | l when List.length l = 20 ->
    let rec take k l = if k = 0 then ([], l) else match l with x :: r -> let (a, b) = take (k - 1) r in (x :: a, b) | [] -> failwith "short" in
    let (pcs, rest) = take 14 l in
    (match rest with
     | [a; b; c; d; cas; ep] -> { pieces = pcs; rotated_bb = { r0 = a; r90 = b; r45L = c; r45R = d }; castling = cas; enpassant = ep }
     | _ -> failwith "bad pos")
  | _ -> failwith ("bad position token: " ^ tok)
let norm_hex s = let s = String.lowercase_ascii s in
  let n = String.length s in
  let i = ref 0 in
  while !i < n - 1 && s.[!i] = '0' do incr i done;
  String.sub s !i (n - !i)
let pos_str (p : position) : string =
  String.concat "," (List.map (fun x -> norm_hex (hex_of_n x)) (p.pieces @ [p.rotated_bb.r0; p.rotated_bb.r90; p.rotated_bb.r45L; p.rotated_bb.r45R; p.castling; p.enpassant]))
let parse_move (tok : string) : move =
  match List.map (fun x -> n_of_int (int_of_string x)) (split_on ',' tok) with
  | [t; f; to_; pc; pr; cap] -> { mtype = t; mfrom = f; mto = to_; mpiece = pc; mpromo = pr; mcapture = cap }
  | _ -> failwith ("bad move token: " ^ tok)
let move_str (m : move) : string =
  Printf.sprintf "%d,%d,%d,%d,%d,%d" (int_of_n m.mtype) (int_of_n m.mfrom) (int_of_n m.mto) (int_of_n m.mpiece) (int_of_n m.mpromo) (int_of_n m.mcapture)

(* --- zobrist keys --- *)
let zkeys : (string, ztable) Hashtbl.t = Hashtbl.create 4

let handle_zkeys args =
  match args with
  | [seed; keys] ->
    let arr = Array.of_list (List.map n_of_hex (split_on ',' keys)) in
    if Array.length arr <> 2 * 7 * 64 + 16 + 64 + 2 then failwith "bad zkeys length";
    let zt = {
      z_piece = (fun c p s -> let i = (int_of_n c * 7 + int_of_n p) * 64 + int_of_n s in if i < 896 && int_of_n c < 2 && int_of_n p < 7 && int_of_n s < 64 then arr.(i) else N0);
      z_castling = (fun c -> let i = int_of_n c in if i < 16 then arr.(896 + i) else N0);
      z_enpassant = (fun s -> let i = int_of_n s in if i < 64 then arr.(912 + i) else N0);
      z_turn = (fun t -> let i = int_of_n t in if i < 2 then arr.(976 + i) else N0) } in
    Hashtbl.replace zkeys seed zt
  | _ -> failwith "bad zkeys line"

let reason_code = function
  | NoReason -> 0 | Checkmate -> 1 | Stalemate -> 2 | Repetition3 -> 3 | Repetition5 -> 4
  | NoProgress -> 5 | InsufficientMaterial -> 6 | OtherReason -> 7

let b01 b = if b then "1" else "0"
let omove_str = function Some m -> move_str m | None -> "-"

(* observation of a model board; the scratch hash and the repetition count are appended by the caller *)
let obs_of (zt : ztable) (h : heap) (b : board) (ok : bool) : string list =
  let p = b_position h b in
  [ b01 ok; pos_str p; string_of_int (int_of_n b.b_turn); norm_hex (hex_of_n (b_hash h b));
    dec_of_n (b_noprogress h b); string_of_int (int_of_z b.b_ply); string_of_int (int_of_z b.b_moves);
    b01 b.b_castled_w; b01 b.b_castled_b; string_of_int (int_of_n b.b_result.outcome); string_of_int (reason_code b.b_result.rreason);
    omove_str (last_move h b); omove_str (second_to_last_move h b);
    norm_hex (hex_of_n (has_moved h b (z_of_int 3))); norm_hex (hex_of_n (has_moved h b (z_of_int 1000)));
    norm_hex (hex_of_n (zhash zt p b.b_turn)); string_of_int (int_of_z (rep_get b.b_reps (b_hash h b))) ]

(* fields compared between "before push" and "after pop" (C08): everything but ok, outcome, reason *)
let c08_fields (o : string list) : string list =
  List.filteri (fun i _ -> i <> 0 && i <> 9 && i <> 10) o

type sboard = {
  mutable g : gstate option;           (* specification game state (None when the start is not a legal position) *)
  mutable gstack : gstate list;
  mutable ostack : string list list;   (* implementation observations before each successful push *)
  mutable last_obs : string list;
}

let draw_code = function DrawRep3 -> 3 | DrawRep5 -> 4 | DrawNoProgress -> 5 | DrawInsufficient -> 6

let handle_bscript line args obs =
  (* args: zseed P turn np fm :: ops... *)
  match args with
  | zseed :: ptok :: turn :: np :: fm :: "::" :: ops ->
    let zt = (try Hashtbl.find zkeys zseed with Not_found -> failwith "zkeys line missing") in
    let p0 = parse_pos ptok in
    let t0 = n_of_int (int_of_string turn) in
    let obs_list = List.map (fun s -> List.filter (fun w -> w <> "") (split_on ' ' s)) (split_on '|' obs) in
    let obs_arr = Array.of_list obs_list in
    if Array.length obs_arr <> List.length ops + 1 then failwith ("bscript: obs count mismatch: " ^ short line);
    let legal_start = wf_b p0 t0 in
    bump (if legal_start then "bscript/legal-start" else "bscript/other-start");
    (* model state *)
    let (h0, b0) = new_board zt [] p0 t0 (n_of_dec np) (z_of_dec fm) in
    let heap = ref h0 in
    let boards = ref [| b0 |] in
    let sel = ref 0 in
    let g0 = if legal_start then Some (g_start (abs_pos p0) (color_of t0) (z_of_dec np) (z_of_dec fm)) else None in
    let sboards = ref [| { g = g0; gstack = []; ostack = []; last_obs = obs_arr.(0) } |] in
    let bad_model = ref false in
    let check_model i (m : string list) =
      let o = obs_arr.(i) in
      let o' = List.mapi (fun j x -> if j = 1 then String.concat "," (List.map norm_hex (split_on ',' x)) else if j = 3 || j = 13 || j = 14 || j = 15 then norm_hex x else x) o in
      if m <> o' && not !bad_model then begin
        bad_model := true;
        report_mismatch line (Printf.sprintf "op#%d: %s" i (String.concat " " m))
      end in
    check_model 0 (obs_of zt !heap b0 true);
    (* C07 on the implementation: incremental hash = scratch hash *)
    let check_hash i =
      let o = obs_arr.(i) in
      if norm_hex (List.nth o 3) <> norm_hex (List.nth o 15) then
        report_spec ~key:"prop=C07" line (Printf.sprintf "op#%d: board hash %s differs from the hash computed from scratch %s" i (List.nth o 3) (List.nth o 15)) in
    check_hash 0;
    List.iteri (fun k op ->
        let i = k + 1 in
        let o = obs_arr.(i) in
        let sb = !sboards.(!sel) in
        let b = !boards.(!sel) in
        (match split_on ':' op with
         | ["push"; mtok] ->
           let m = parse_move mtok in
           let ((h1, b1), ok) = push_move zt !heap b m in
           heap := h1; !boards.(!sel) <- b1;
           check_model i (obs_of zt !heap b1 ok);
           bump "op/push";
           let impl_ok = (List.hd o = "1") in
           if impl_ok then begin
             check_hash i;
             (* C05 *)
             (match sb.g with
              | Some g ->
                let g' = g_play g (abs_move m) in
                sb.gstack <- g :: sb.gstack; sb.g <- Some g';
                let drawn = (List.nth o 9 = "4") in
                let reason = int_of_string (List.nth o 10) in
                (match g'.g_now with
                 | [] -> if drawn && not g'.g_drawn then report_spec ~key:"prop=C05" line (Printf.sprintf "op#%d: reported drawn (reason %d) but no draw condition has occurred in this game" i reason)
                 | l ->
                   List.iter (fun r -> bump (Printf.sprintf "draw/%d" (draw_code r))) l;
                   if not drawn then report_spec ~key:"prop=C05" line (Printf.sprintf "op#%d: draw condition %s holds but the game is not reported drawn" i (String.concat "+" (List.map (fun r -> string_of_int (draw_code r)) l)))
                   else (match l with
                       | [r] -> if reason <> draw_code r then report_spec ~key:"prop=C05" line (Printf.sprintf "op#%d: draw reason %d, expected %d" i reason (draw_code r))
                       | _ -> ()))
              | None -> ());
             sb.ostack <- sb.last_obs :: sb.ostack
           end
         | ["pop"] ->
           let (((h1, b1), _), ok) = pop_move !heap b in
           heap := h1; !boards.(!sel) <- b1;
           check_model i (obs_of zt !heap b1 ok);
           bump "op/pop";
           if List.hd o = "1" then begin
             check_hash i;
             (match sb.gstack with g :: r -> sb.g <- Some g; sb.gstack <- r | [] -> sb.g <- None);
             (match sb.ostack with
              | before :: r ->
                sb.ostack <- r;
                if c08_fields before <> c08_fields o then report_spec ~key:"prop=C08" line (Printf.sprintf "op#%d: take-back did not restore the board: before push [%s] after pop [%s]" i (String.concat " " before) (String.concat " " o))
                else if List.nth o 9 = "4" then report_spec ~key:"prop=C08" line (Printf.sprintf "op#%d: drawn result after take-back" i)
              | [] -> ())
           end
         | ["fork"] ->
           let (h1, f) = fork !heap b in
           heap := h1;
           boards := Array.append !boards [| f |];
           sboards := Array.append !sboards [| { g = sb.g; gstack = []; ostack = []; last_obs = o } |];
           sel := Array.length !boards - 1;
           check_model i (obs_of zt !heap f true);
           bump "op/fork";
           (* a fork reports what its parent reports *)
           if List.tl sb.last_obs <> List.tl o then report_spec ~key:"prop=C08" line (Printf.sprintf "op#%d: fork differs from its parent" i)
         | ["sel"; ks] ->
           sel := int_of_string ks;
           let b' = !boards.(!sel) in
           check_model i (obs_of zt !heap b' true);
           bump "op/select";
           (* isolation: the selected board reports what it reported when last used *)
           let sb' = !sboards.(!sel) in
           if List.tl sb'.last_obs <> List.tl o then
             report_spec ~key:"prop=C08" line (Printf.sprintf "op#%d: board %d changed while another board was used: was [%s] now [%s]" i !sel (String.concat " " sb'.last_obs) (String.concat " " o))
         | ["adj"] ->
           let (b1, _) = adjudicate_no_legal_moves !heap b in
           !boards.(!sel) <- b1;
           check_model i (obs_of zt !heap b1 true);
           bump "op/adjudicate";
           (match sb.g with
            | Some g ->
              let exp_outcome, exp_reason =
                if in_check g.g_pos.brd g.g_turn then ((match g.g_turn with Wh -> 3 | Bl -> 2), 1) else (4, 2) in
              if int_of_string (List.nth o 9) <> exp_outcome || int_of_string (List.nth o 10) <> exp_reason then
                report_spec ~key:"prop=C05" line (Printf.sprintf "op#%d: adjudication %s/%s, expected %d/%d" i (List.nth o 9) (List.nth o 10) exp_outcome exp_reason)
            | None -> ())
         | _ -> failwith ("bad op " ^ op));
        !sboards.(!sel).last_obs <- o) ops
  | _ -> failwith ("bad bscript line: " ^ short line)

let handle (line : string) (kind : string) (args : string list) (obs : string) : unit =
  match kind with
  | "zkeys" -> handle_zkeys (args @ [obs])
  | "bscript" -> handle_bscript line args obs
  | _ -> failwith ("unknown case kind: " ^ line)
